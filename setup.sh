#!/bin/bash
# Build /verif/.venv offline: overlay on /venv (repo deps) + z3-solver, cvc5 from the wheelhouse.
# Idempotent; called by MANIFEST.setup_cmd and by ./check on every invocation.
set -e
cd "$(dirname "$0")"
V=/verif/.venv
if [ -x "$V/bin/python" ] && "$V/bin/python" -c "import z3, numpy, qiskit" 2>/dev/null; then exit 0; fi
(
  flock 9
  if [ -x "$V/bin/python" ] && "$V/bin/python" -c "import z3, numpy, qiskit" 2>/dev/null; then exit 0; fi
  rm -rf "$V"
  /venv/bin/python -m venv "$V"
  SP=$("$V/bin/python" -c "import sysconfig; print(sysconfig.get_paths()['purelib'])")
  echo "import site; site.addsitedir('/venv/lib/python3.12/site-packages')" > "$SP/_repo_venv.pth"
  PIP_NO_INDEX=1 "$V/bin/pip" install -q --no-index --find-links /opt/veriftools/wheels z3-solver >/dev/null
  PIP_NO_INDEX=1 "$V/bin/pip" install -q --no-index --find-links /opt/veriftools/wheels cvc5 >/dev/null 2>&1 || true
  "$V/bin/python" -c "import z3, numpy, qiskit; print('venv ok: z3', z3.get_version_string())"
) 9>/verif/.venv.lock
