"""Access to the shipped lookup data through the REAL library functions (regenerated on every run)."""
import os, re
from . import loader, ztab
from .coupling_spec import NCLASSES

DATA_DIR = os.path.join(loader.PKG_DIR, "data")
TOKEN_RE = re.compile(r"^(?:(h|s|sdg)(\d)|(cx|cz|swap)(\d),(\d))$")


def stabilizer_files():
    """[(n, conn, filename)] for every stabilizer*-*.txt in the data directory (strays included)"""
    out = []
    for fn in sorted(os.listdir(DATA_DIR)):
        m = re.match(r"^stabilizer(\d+)-(.+)\.txt$", fn)
        if m:
            out.append((int(m.group(1)), m.group(2), fn))
    return out


def mub_files():
    out = []
    for fn in sorted(os.listdir(DATA_DIR)):
        m = re.match(r"^mub(\d+)-(.+)\.txt$", fn)
        if m:
            out.append((int(m.group(1)), m.group(2), fn))
    return out


def raw_lines(fn):
    with open(os.path.join(DATA_DIR, fn)) as f:
        return f.read().split("\n")


def tokenize(circuit_string):
    """independent tokenizer -> (gates, errors)"""
    gates, errs = [], []
    for tok in circuit_string.split(" "):
        if tok == "":
            continue
        m = TOKEN_RE.match(tok)
        if not m:
            errs.append("bad token %r" % tok)
            continue
        if m.group(1):
            gates.append((m.group(1), [int(m.group(2))]))
        else:
            gates.append((m.group(3), [int(m.group(4)), int(m.group(5))]))
    return gates, errs


_cache = {}


def _fresh_native_state():
    """empty every module-level container of the native lookup module, so that a table is read the way a fresh
    interpreter reads it (the library's own caches are C13's subject; see history_check below)"""
    cl = loader.native("circuit_lookup")
    for k, v in list(cl.__dict__.items()):
        if isinstance(v, (dict, list, set)) and not k.startswith("__"):
            v.clear()


def entries(n, conn):
    """table entries through the real stabilizer_circuit_lookup / parse_circuit / Graph.decompress (fresh lookup state)"""
    key = (n, conn)
    if key in _cache:
        return _cache[key]
    _fresh_native_state()
    cl = loader.native("circuit_lookup")
    gr = loader.native("graph")
    out = []
    k = 0
    while True:
        try:
            info = cl.stabilizer_circuit_lookup(n, conn, k)
        except IndexError:
            break
        qc = info.parse_circuit()
        adj = gr.Graph.decompress(n, info.graph_id).adjacency_matrix
        out.append(dict(id=k, graph_id=info.graph_id, cost=info.cost, depth=info.depth, text=info.circuit_string,
                        gates=ztab.gates_of(qc), nq=qc.num_qubits, adj=[[int(v) for v in row] for row in adj]))
        k += 1
    _cache[key] = out
    return out


def class_of(n):
    lc = loader.native("lc_classes")
    return {2: lc.LCClass2, 3: lc.LCClass3, 4: lc.LCClass4, 5: lc.LCClass5, 6: lc.LCClass6}[n]


def rep_graph(n, cid):
    g = class_of(n)(cid).get_graph()
    return [[int(v) for v in row] for row in g.adjacency_matrix]


def adj_of_id(n, gid):
    """independent decoder of the documented bit layout: edge (i,j), i<j, at bit i*n - i(i+1)/2 + (j-i-1)"""
    adj = [[0] * n for _ in range(n)]
    for i in range(n):
        for j in range(i + 1, n):
            bit = i * n - i * (i + 1) // 2 + (j - i - 1)
            if (gid >> bit) & 1:
                adj[i][j] = adj[j][i] = 1
    return adj


def history_check():
    """Are lookups independent of which tables were read before?  Reads every advertised configuration WITHOUT
    clearing the library's state, in forward and in reverse order, and compares selected entries with the
    fresh-state reads.  -> list of dict(n, first, second, id, what)"""
    from .coupling_spec import ADVERTISED
    cl = loader.native("circuit_lookup")
    out = []
    fresh = {(n, c): entries(n, c) for (n, c) in ADVERTISED}
    for order in (list(ADVERTISED), list(reversed(ADVERTISED))):
        _fresh_native_state()
        prev = {}
        for (n, c) in order:
            K = len(fresh[(n, c)])
            for cid in (range(K) if K <= 100 else sorted(set([0, 1, K // 2, K - 1] + list(range(2, K, 37))))):
                info = cl.stabilizer_circuit_lookup(n, c, cid)
                f = fresh[(n, c)][cid]
                try:
                    parsed = ztab.gates_of(info.parse_circuit())
                except Exception as e:
                    parsed = repr(e)
                if parsed != f["gates"]:
                    out.append(dict(n=n, first=prev.get(n), second=c, id=cid, parsed=True,
                                    what="parse_circuit() of entry (%d,%s,%d) after reading %s yields %s..., a fresh interpreter yields %s..." % (n, c, cid, prev.get(n), str(parsed)[:60], str(f["gates"])[:60])))
                if (info.graph_id, info.cost, info.depth, info.circuit_string) != (f["graph_id"], f["cost"], f["depth"], f["text"]):
                    out.append(dict(n=n, first=prev.get(n), second=c, id=cid,
                                    what="lookup(%d,%s,%d) after reading %s returns %r, a fresh interpreter returns %r" % (n, c, cid, prev.get(n), info.circuit_string[:40], f["text"][:40])))
            prev[n] = c
    _fresh_native_state()
    return out


def replay_history(case):
    """native, fresh process: read `first`, then `second`; compare with the raw file line"""
    from htstabilizer import circuit_lookup as cl
    n, first, second, cid = case["n"], case["first"], case["second"], case["id"]
    if first is not None:
        k = 0
        while True:      # read (and parse) the whole first table, as a user working with that connectivity would
            try:
                cl.stabilizer_circuit_lookup(n, first, k).parse_circuit()
            except IndexError:
                break
            k += 1
    info = cl.stabilizer_circuit_lookup(n, second, cid)
    if case.get("parsed"):
        from . import dense
        toks, errs = tokenize([l for l in raw_lines("stabilizer%d-%s.txt" % (n, second)) if l][cid].split(":")[3])
        got_g = dense.gates_of(info.parse_circuit())
        return [(g, list(q)) for g, q in got_g] != [(g, list(q)) for g, q in toks], "after working with %s-%s, parse_circuit() of entry %d of %s-%s yields %s..., the file line says %s..." % (n, first, cid, n, second, got_g[:4], toks[:4])
    raw = [l for l in raw_lines("stabilizer%d-%s.txt" % (n, second)) if l][cid]
    got = "%d:%d:%d:%s" % (info.graph_id, info.cost, info.depth, info.circuit_string)
    return got != raw, "after a lookup in %s-%s the entry %d of %s-%s is %r but the file says %r" % (n, first, cid, n, second, got[:50], raw[:50])
