"""Coupling graphs transcribed BY HAND from the property statement (C02) / README / docstrings:
chain 0-1-..-(n-1); star centred on qubit 0; cycle; T = 4-3-0-{1,2}; Q = chain plus edge (n-1, n-4);
ladder = 6-cycle plus (1,4); E = 3-0-1-2-5 plus (1,4); H = 0-1-2 and 3-4-5 plus (1,4); all-to-all.
Nothing here is computed by the library."""

ADVERTISED = [
    (2, "all"),
    (3, "all"), (3, "linear"),
    (4, "all"), (4, "linear"), (4, "star"), (4, "cycle"),
    (5, "all"), (5, "linear"), (5, "star"), (5, "cycle"), (5, "T"), (5, "Q"),
    (6, "all"), (6, "linear"), (6, "star"), (6, "ladder"), (6, "E"), (6, "H"), (6, "Q"),
]
NCLASSES = {2: 2, 3: 5, 4: 18, 5: 93, 6: 760}


def edges(n, name):
    if name == "all":
        e = [(i, j) for i in range(n) for j in range(i + 1, n)]
    elif name == "linear":
        e = [(i, i + 1) for i in range(n - 1)]
    elif name == "star":
        e = [(0, i) for i in range(1, n)]
    elif name == "cycle":
        e = [(i, i + 1) for i in range(n - 1)] + [(0, n - 1)]
    elif name == "T":
        e = [(3, 4), (0, 3), (0, 1), (0, 2)]
    elif name == "Q":
        e = [(i, i + 1) for i in range(n - 1)] + [(n - 4, n - 1)]
    elif name == "ladder":
        e = [(0, 1), (1, 2), (2, 3), (3, 4), (4, 5), (0, 5), (1, 4)]
    elif name == "E":
        e = [(0, 3), (0, 1), (1, 2), (2, 5), (1, 4)]
    elif name == "H":
        e = [(0, 1), (1, 2), (3, 4), (4, 5), (1, 4)]
    else:
        raise KeyError(name)
    return sorted(set((min(a, b), max(a, b)) for a, b in e))


def edge_set(n, name):
    return set(edges(n, name))
