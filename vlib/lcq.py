"""lcq: direct solver queries about local-Clifford (LC) equivalence, written over core's Boolean DAG.
A layer is 4 bits (a,b,c,d) per qubit with ad+bc=1 acting as x' = a x + b z, z' = c x + d z.
Tableaux are lists X[qubit][generator], Z[qubit][generator] of literals."""
import time
import z3
from .core import var, land, lxor, lor_all, land_all, leq, toz3, evaluate


def layer_vars(n, tag):
    L, cons = [], []
    for q in range(n):
        a, b, c, d = [var("%s%d%s" % (tag, q, k)) for k in "abcd"]
        cons.append(lxor(land(a, d), land(b, c)))
        L.append((a, b, c, d))
    return L, cons


def apply_layer(L, X, Z, qubits=None):
    n = len(X)
    X2 = [r[:] for r in X]
    Z2 = [r[:] for r in Z]
    for q in (qubits if qubits is not None else range(n)):
        a, b, c, d = L[q]
        for g in range(len(X[q])):
            x, z = X[q][g], Z[q][g]
            X2[q][g] = lxor(land(a, x), land(b, z))
            Z2[q][g] = lxor(land(c, x), land(d, z))
    return X2, Z2


def graph_tab(adj):
    n = len(adj)
    X = [[1 if i == g else 0 for g in range(n)] for i in range(n)]
    Z = [[(adj[i][g] if adj[i][g] in (0, 1) else adj[i][g]) if i != g else 0 for g in range(n)] for i in range(n)]
    return X, Z


def in_graph_group(adj, X, Z):
    """literals stating that every generator column (x,z) satisfies z = Gamma x; adj entries may be literals"""
    n = len(adj)
    cons = []
    for g in range(len(X[0])):
        for i in range(n):
            s = 0
            for j in range(n):
                if i != j and adj[i][j] != 0:
                    s = lxor(s, land(adj[i][j], X[j][g]))
            cons.append(leq(Z[i][g], s))
    return cons


def cz(X, Z, i, j):
    X2 = [r[:] for r in X]
    Z2 = [r[:] for r in Z]
    for g in range(len(X[0])):
        Z2[i][g] = lxor(Z[i][g], X[j][g])
        Z2[j][g] = lxor(Z[j][g], X[i][g])
    return X2, Z2


class Q:
    """query counter around a fresh z3 solver per query"""

    def __init__(self, timeout_ms=120000):
        self.n = 0
        self.t = 0.0
        self.verdicts = {"sat": 0, "unsat": 0, "unknown": 0}
        self.timeout_ms = timeout_ms

    def check(self, lits, want_model=False):
        s = z3.Solver()
        s.set("timeout", self.timeout_ms)
        for l in lits:
            if l == 0:
                self.n += 1
                self.verdicts["unsat"] += 1
                return ("unsat", None)
            if l != 1:
                s.add(toz3(l))
        t = time.time()
        r = str(s.check())
        self.t += time.time() - t
        self.n += 1
        self.verdicts[r] = self.verdicts.get(r, 0) + 1
        env = None
        if r == "sat" and want_model:
            m = s.model()
            env = {}
            for d in m.decls():
                v = m[d]
                if z3.is_true(v):
                    env[d.name()] = True
                elif z3.is_false(v):
                    env[d.name()] = False
        return (r, env)


def lc_equivalent(q, adj_a, adj_b, tag="m"):
    """is there a layer M with M|G_a> in group(G_b)?  -> (verdict, layer as list of 4-tuples or None).
    A sat model is re-verified by evaluation (independent of the solver)."""
    n = len(adj_a)
    X, Z = graph_tab(adj_a)
    M, mc = layer_vars(n, tag)
    X3, Z3 = apply_layer(M, X, Z)
    goal = in_graph_group(adj_b, X3, Z3)
    r, env = q.check(mc + goal, want_model=True)
    if r != "sat":
        return r, None
    layer = [tuple(int(evaluate(l, env)) for l in M[k]) for k in range(n)]
    if not verify_layer(adj_a, adj_b, layer):
        raise AssertionError("solver model failed re-verification")
    return r, layer


def verify_layer(adj_a, adj_b, layer):
    """plain-Python check that the concrete layer maps |G_a> into the group of G_b"""
    n = len(adj_a)
    for (a, b, c, d) in layer:
        if (a * d + b * c) % 2 != 1:
            return False
    for g in range(n):
        xs, zs = [], []
        for qb in range(n):
            x = 1 if qb == g else 0
            z = adj_a[qb][g] if qb != g else 0
            a, b, c, d = layer[qb]
            xs.append((a * x + b * z) % 2)
            zs.append((c * x + d * z) % 2)
        for i in range(n):
            s = 0
            for j in range(n):
                if i != j:
                    s ^= adj_b[i][j] & xs[j]
            if s != zs[i]:
                return False
    return True
