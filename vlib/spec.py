"""Independent specifications (written directly as Boolean terms, never by calling the library) and
builders of symbolic inputs shared by several property harnesses."""
import itertools
import numpy as np
from . import core, symnp, lcq
from .core import var, land, lxor, lor, lor_all, land_all, lxor_all, leq, mk

SIX = [(1, 0, 0, 1), (0, 1, 1, 0), (1, 0, 1, 1), (1, 1, 1, 0), (0, 1, 1, 1), (1, 1, 0, 1)]


def sym_tableau(n, m=None, prefix="t"):
    """literal matrices X[q][g], Z[q][g] (n qubits, m operators) of fresh variables"""
    m = n if m is None else m
    X = [[var("%sx%d_%d" % (prefix, q, g)) for g in range(m)] for q in range(n)]
    Z = [[var("%sz%d_%d" % (prefix, q, g)) for g in range(m)] for q in range(n)]
    return X, Z


def independent(X, Z):
    """no non-trivial GF(2) combination of the operator columns vanishes"""
    n, m = len(X), len(X[0])
    cons = []
    for a in range(1, 2 ** m):
        cols = [g for g in range(m) if (a >> g) & 1]
        bits = []
        for q in range(n):
            bits.append(lxor_all([X[q][g] for g in cols]))
            bits.append(lxor_all([Z[q][g] for g in cols]))
        cons.append(lor_all(bits))
    return land_all(cons)


def commuting(X, Z):
    n, m = len(X), len(X[0])
    cons = []
    for g in range(m):
        for h in range(g + 1, m):
            cons.append(lxor_all([lxor(land(X[q][g], Z[q][h]), land(Z[q][g], X[q][h])) for q in range(n)]) ^ 1)
    return land_all(cons)


def valid(X, Z):
    return land(independent(X, Z), commuting(X, Z))


def to_symarrays(X, Z):
    n, m = len(X), len(X[0])
    R = np.empty((n, m), dtype=object)
    S = np.empty((n, m), dtype=object)
    for q in range(n):
        for g in range(m):
            R[q, g] = mk((X[q][g],))
            S[q, g] = mk((Z[q][g],))
    return symnp._wrap(R, np.int8), symnp._wrap(S, np.int8)


def layered_graph_tableau(adj, L):
    """literal tableau of L|G>: generators X_g Z_N(g) rotated by the per-qubit blocks (a,b,c,d)"""
    X, Z = lcq.graph_tab(adj)
    return lcq.apply_layer(L, X, Z)


class PhasesTouched(Exception):
    pass


def make_stabilizer(stmod, R, S, phases=None, poison_phases=False):
    """build the instrumented library's Stabilizer through its REAL constructor (matrix-tuple format; the other
    formats are C14's subject).  With poison_phases the sign vector raises PhasesTouched on any later read."""
    cls = stmod.Stabilizer
    if poison_phases:
        cls = _poisoned(cls)
    n = int(np.ndarray.__getattribute__(R, "shape")[0])
    if phases is None:
        s = cls((R, S))
    else:
        s = cls((R, S, phases))
    if poison_phases:
        s._poison_armed = True
    return s


_poison_cache = {}


def _poisoned(cls):
    if cls not in _poison_cache:
        class Poisoned(cls):
            _poison_armed = False

            @property
            def phases(self):
                if self._poison_armed:
                    raise PhasesTouched("the signs of the generators were read")
                return self.__dict__.get("_ph")

            @phases.setter
            def phases(self, v):
                self.__dict__["_ph"] = v
        Poisoned.__name__ = cls.__name__
        _poison_cache[cls] = Poisoned
    return _poison_cache[cls]


def in_group_some_layer(adj, X, Z):
    """exists a layer of single-qubit Cliffords (expanded over all 6^n) mapping every column into group(G)"""
    n = len(X)
    alts = []
    for combo in itertools.product(SIX, repeat=n):
        X2, Z2 = lcq.apply_layer(list(combo), X, Z)
        alts.append(land_all(lcq.in_graph_group(adj, X2, Z2)))
    return lor_all(alts)


def env_tableau(X, Z, env):
    n, m = len(X), len(X[0])
    R = [[int(core.evaluate(X[q][g], env)) for g in range(m)] for q in range(n)]
    S = [[int(core.evaluate(Z[q][g], env)) for g in range(m)] for q in range(n)]
    return R, S


def random_invertible(n, rnd):
    while True:
        B = [[rnd.randrange(2) for _ in range(n)] for _ in range(n)]
        if _rank(B) == n:
            return B


def _rank(M):
    M = [row[:] for row in M]
    r = 0
    rows, cols = len(M), len(M[0])
    for c in range(cols):
        p = next((i for i in range(r, rows) if M[i][c]), None)
        if p is None:
            continue
        M[r], M[p] = M[p], M[r]
        for i in range(rows):
            if i != r and M[i][c]:
                M[i] = [a ^ b for a, b in zip(M[i], M[r])]
        r += 1
    return r


def change_basis(X, Z, B):
    """columns g' = sum_g B[g][g'] column g  (B concrete 0/1)"""
    n, m = len(X), len(X[0])
    X2 = [[lxor_all([X[q][g] for g in range(m) if B[g][h]]) for h in range(m)] for q in range(n)]
    Z2 = [[lxor_all([Z[q][g] for g in range(m) if B[g][h]]) for h in range(m)] for q in range(n)]
    return X2, Z2
