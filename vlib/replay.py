"""Replay a recorded counterexample against the NATIVE, uninstrumented library in a fresh process.
Prints `REPRODUCED <detail>` and exits 1 when the real code misbehaves on the recorded input,
`NOT-REPRODUCED <detail>` and exits 0 otherwise."""
import importlib, json, os, sys, warnings

os.environ.setdefault("RAYON_NUM_THREADS", "1")
os.environ.setdefault("OMP_NUM_THREADS", "1")
warnings.filterwarnings("ignore")


def batch(listfile):
    sys.path.insert(0, os.environ.get("VERIF_REPO_SRC", "/repo/src"))
    any_rep = False
    with open(listfile) as f:
        paths = [l.strip() for l in f if l.strip()]
    # warm the imports once, then replay every case in its own forked child so that no state (caches a defect may
    # have introduced) leaks from one replay into the next: each case sees a fresh library
    import htstabilizer.stabilizer_circuits, htstabilizer.tomography  # noqa
    for path in paths:
        with open(path) as f:
            case = json.load(f)
        r, w = os.pipe()
        pid = os.fork()
        if pid == 0:
            os.close(r)
            try:
                mod = importlib.import_module("vlib.props.%s" % case["property"].lower())
                ok, detail = mod.replay(case)
                ok = bool(ok)
            except Exception as e:
                ok, detail = None, "replay raised %r" % (e,)
            os.write(w, json.dumps({"path": path, "ok": ok, "detail": str(detail)[:800]}).encode())
            os._exit(0)
        os.close(w)
        data = b""
        while True:
            chunk = os.read(r, 65536)
            if not chunk:
                break
            data += chunk
        os.close(r)
        os.waitpid(pid, 0)
        try:
            rec = json.loads(data.decode())
        except Exception:
            rec = {"path": path, "ok": None, "detail": "replay child died"}
        any_rep = any_rep or bool(rec["ok"])
        print("BATCH " + json.dumps(rec), flush=True)
    sys.exit(1 if any_rep else 0)


def main():
    if sys.argv[1] == "--batch":
        batch(sys.argv[2])
        return
    path = sys.argv[1]
    with open(path) as f:
        case = json.load(f)
    sys.path.insert(0, os.environ.get("VERIF_REPO_SRC", "/repo/src"))
    mod = importlib.import_module("vlib.props.%s" % case["property"].lower())
    ok, detail = mod.replay(case)
    if ok:
        print("REPRODUCED %s" % detail)
        sys.exit(1)
    print("NOT-REPRODUCED %s" % detail)
    sys.exit(0)


if __name__ == "__main__":
    main()
