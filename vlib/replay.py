"""Replay a recorded counterexample against the NATIVE, uninstrumented library in a fresh process.
Prints `REPRODUCED <detail>` and exits 1 when the real code misbehaves on the recorded input,
`NOT-REPRODUCED <detail>` and exits 0 otherwise."""
import importlib, json, os, sys, warnings

os.environ.setdefault("RAYON_NUM_THREADS", "1")
os.environ.setdefault("OMP_NUM_THREADS", "1")
warnings.filterwarnings("ignore")


def batch(listfile):
    sys.path.insert(0, os.environ.get("VERIF_REPO_SRC", "/repo/src"))
    any_rep = False
    with open(listfile) as f:
        paths = [l.strip() for l in f if l.strip()]
    for path in paths:
        with open(path) as f:
            case = json.load(f)
        try:
            mod = importlib.import_module("vlib.props.%s" % case["property"].lower())
            ok, detail = mod.replay(case)
            ok = bool(ok)
        except Exception as e:
            ok, detail = None, "replay raised %r" % (e,)
        any_rep = any_rep or bool(ok)
        print("BATCH " + json.dumps({"path": path, "ok": ok, "detail": str(detail)[:800]}), flush=True)
    sys.exit(1 if any_rep else 0)


def main():
    if sys.argv[1] == "--batch":
        batch(sys.argv[2])
        return
    path = sys.argv[1]
    with open(path) as f:
        case = json.load(f)
    sys.path.insert(0, os.environ.get("VERIF_REPO_SRC", "/repo/src"))
    mod = importlib.import_module("vlib.props.%s" % case["property"].lower())
    ok, detail = mod.replay(case)
    if ok:
        print("REPRODUCED %s" % detail)
        sys.exit(1)
    print("NOT-REPRODUCED %s" % detail)
    sys.exit(0)


if __name__ == "__main__":
    main()
