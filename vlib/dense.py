"""Plain-NumPy dense simulator used only for REPLAY (independent of ztab, of qiskit's simulators and of
the library).  Qubit 0 is the least significant bit of the basis index."""
import numpy as np

_I = np.eye(2, dtype=complex)
_X = np.array([[0, 1], [1, 0]], dtype=complex)
_Y = np.array([[0, -1j], [1j, 0]], dtype=complex)
_Z = np.array([[1, 0], [0, -1]], dtype=complex)
_H = np.array([[1, 1], [1, -1]], dtype=complex) / np.sqrt(2)
_S = np.array([[1, 0], [0, 1j]], dtype=complex)
ONE = {"id": _I, "i": _I, "x": _X, "y": _Y, "z": _Z, "h": _H, "s": _S, "sdg": _S.conj().T}


def apply1(psi, n, U, q):
    psi = psi.reshape([2] * n)          # axis k <-> qubit n-1-k
    ax = n - 1 - q
    psi = np.moveaxis(np.tensordot(U, psi, axes=([1], [ax])), 0, ax)
    return psi.reshape(-1)


def apply_gate(psi, n, name, qs):
    if name in ONE:
        return apply1(psi, n, ONE[name], qs[0])
    idx = np.arange(2 ** n)
    if name == "cx":
        c, t = qs
        src = np.where((idx >> c) & 1, idx ^ (1 << t), idx)
        return psi[src]
    if name == "cz":
        a, b = qs
        return psi * np.where(((idx >> a) & 1) & ((idx >> b) & 1), -1, 1)
    if name == "swap":
        a, b = qs
        ba = (idx >> a) & 1
        bb = (idx >> b) & 1
        src = np.where(ba != bb, idx ^ (1 << a) ^ (1 << b), idx)
        return psi[src]
    raise ValueError(name)


def run(n, gates, psi=None):
    if psi is None:
        psi = np.zeros(2 ** n, dtype=complex)
        psi[0] = 1
    for name, qs in gates:
        psi = apply_gate(psi, n, name, qs)
    return psi


def pauli_apply(psi, n, label):
    """label: qubit-0-first string over IXYZ (no sign)"""
    out = psi
    for q, c in enumerate(label):
        if c != "I":
            out = apply1(out, n, ONE[c.lower()], q)
    return out


def expectation(psi, n, label):
    sign = 1
    if label[0] in "+-":
        sign = -1 if label[0] == "-" else 1
        label = label[1:]
    return sign * np.vdot(psi, pauli_apply(psi, n, label)).real


def gates_of(qc):
    out = []
    for inst in qc.data:
        name = inst.operation.name
        if name in ("barrier", "measure"):
            continue
        out.append((name, [qc.find_bit(q).index for q in inst.qubits]))
    return out


def pauli_matrix(label):
    """dense matrix of a qubit-0-first label (kron with qubit 0 least significant)"""
    m = np.array([[1]], dtype=complex)
    for c in label:
        m = np.kron(ONE[c.lower()] if c != "I" else _I, m)
    return m
