"""Shared driver pieces: evidence writer, violation/replay/known-finding discipline, parallel map."""
import hashlib, json, multiprocessing, os, subprocess, sys, time, traceback

VERIF = os.path.dirname(os.path.dirname(os.path.abspath(__file__)))
EVIDENCE_DIR = os.path.join(VERIF, "evidence")
REPLAY_DIR = os.path.join(VERIF, "replays")
KNOWN = os.path.join(VERIF, "known_findings.jsonl")
PY = sys.executable

EXIT_OK, EXIT_VIOLATION, EXIT_HARNESS = 0, 1, 3
NPROC = int(os.environ.get("VERIF_PROCS", str(min(16, os.cpu_count() or 1))))


def load_known():
    out = []
    if os.path.exists(KNOWN):
        with open(KNOWN) as f:
            for line in f:
                line = line.strip()
                if line and not line.startswith("#") and not line.startswith("fixed:"):
                    out.append(json.loads(line))
    return out


class Check:
    def __init__(self, pid, tier, seed, level="model_checking"):
        self.pid = pid
        self.tier = tier
        self.seed = seed
        self.level = level
        self.t0 = time.time()
        self.parts = {}
        self.samples = []
        self.functions = []
        self.bounds = []
        self.outside = []
        self.assumptions = []
        self.trusted = ["z3 %s" % _z3v(), "CPython %s" % sys.version.split()[0], "NumPy shape operations on object arrays",
                        "Qiskit circuit container / Clifford simulator on concrete arguments"]
        self.lemmas = []
        self.violations = []       # reproduced, unlisted
        self.known_hits = []
        self.harness_errors = []
        self.validated = 0
        self.sigs = set()
        self.states = 0
        self.queries = 0
        self.solver_s = 0.0
        self.verdicts = {}
        self.obligations = 0
        self.discharged = 0
        self.vacuity = []
        self.extra = {}
        self.tt_decisions = 0
        self.known = [k for k in load_known() if k.get("property") == pid]
        self.exhaustive = None

    # ------------------------------------------------------------ bookkeeping
    def encode(self, *names):
        for n in names:
            if n not in self.functions:
                self.functions.append(n)

    def add(self, part, res, sig_of=None, sample=2):
        """merge a core.Result under a part name"""
        p = self.parts.setdefault(part, dict(paths=0, queries=0, solver_s=0.0, obligations=0, discharged=0,
                                             unique_realisations=0, forks=0, aborted=0))
        p["paths"] += res.paths
        p["queries"] += res.queries
        p["solver_s"] = round(p["solver_s"] + res.solver_s, 3)
        p["obligations"] += res.obligations
        p["discharged"] += res.discharged
        p["unique_realisations"] += res.unique
        p["forks"] += res.forks
        p["aborted"] += res.aborted
        self.states += res.paths
        self.queries += res.queries
        self.solver_s += res.solver_s
        for k, v in res.verdicts.items():
            self.verdicts[k] = self.verdicts.get(k, 0) + v
        self.obligations += res.obligations
        self.discharged += res.discharged
        self.tt_decisions += getattr(res, "tt_decisions", 0)
        for e in res.errors:
            self.harness_error("%s: %s" % (part, e))
        if getattr(res, "sigs", None):
            for h in res.sigs:
                self.sigs.add(part + h)
        else:
            for leaf in res.leaves:
                s = json.dumps(sig_of(leaf) if sig_of else leaf, sort_keys=True, default=str)
                self.sigs.add(hashlib.sha1((part + s).encode()).hexdigest())
        n = 0
        for leaf in res.leaves:
            if n >= sample or len(self.samples) >= 40:
                break
            self.samples.append({"part": part, "leaf": leaf})
            n += 1
        return res

    def count(self, part, n_queries=0, solver_s=0.0, obligations=0, discharged=0, verdicts=None, paths=0, sig=None):
        """account for direct solver queries (lcq-style) that are not path explorations"""
        p = self.parts.setdefault(part, dict(paths=0, queries=0, solver_s=0.0, obligations=0, discharged=0))
        p["paths"] = p.get("paths", 0) + paths
        p["queries"] += n_queries
        p["solver_s"] = round(p["solver_s"] + solver_s, 3)
        p["obligations"] += obligations
        p["discharged"] += discharged
        self.states += paths
        self.queries += n_queries
        self.solver_s += solver_s
        self.obligations += obligations
        self.discharged += discharged
        for k, v in (verdicts or {}).items():
            self.verdicts[k] = self.verdicts.get(k, 0) + v
        if sig is not None:
            for s in (sig if isinstance(sig, (list, set, tuple)) else [sig]):
                self.sigs.add(hashlib.sha1((part + str(s)).encode()).hexdigest())

    def sample(self, part, obj):
        if len(self.samples) < 60:
            self.samples.append({"part": part, "case": obj})

    def harness_error(self, msg):
        self.harness_errors.append(msg)
        print("HARNESS-ERROR property=%s %s" % (self.pid, msg[:2000]), flush=True)

    def vacuity_twin(self, name, reached):
        """reachability witness: the twin harness with obligation False must be violated (reached=True)"""
        self.vacuity.append({"harness": name, "reachable": bool(reached)})
        if not reached:
            self.harness_error("vacuity twin of %s did not reach its assertion" % name)

    # ------------------------------------------------------------ violations
    def candidate(self, key, case, what):
        """A counterexample candidate (solver model turned into concrete input).  It is replayed against the
        native library in a fresh process; only a reproducing one counts."""
        self.candidates([(key, case, what)])

    def candidates(self, cases):
        """batch version: [(key, case, what)]; one fresh replay process for all of them"""
        if not cases:
            return
        os.makedirs(REPLAY_DIR, exist_ok=True)
        paths = []
        for key, case, what in cases:
            case = dict(case)
            case["property"] = self.pid
            case["key"] = key
            case["what"] = what
            blob = json.dumps(case, sort_keys=True, default=_jd)
            digest = hashlib.sha1(blob.encode()).hexdigest()[:12]
            path = os.path.join(REPLAY_DIR, "%s-%s.json" % (self.pid, digest))
            with open(path, "w") as f:
                f.write(blob)
            paths.append(path)
        verdicts = run_replay_batch(paths)
        for (key, case, what), path in zip(cases, paths):
            ok, detail = verdicts.get(path, (None, "no verdict from replay process"))
            self._handle(key, what, path, ok, detail)

    def _handle(self, key, what, path, ok, detail):
        if ok is None:
            self.harness_error("replay of %s could not run: %s" % (path, detail))
            return
        if not ok:
            self.harness_error("counterexample does not reproduce on the native library (encoding/shim wrong?): %s :: %s" % (path, detail))
            return
        for k in self.known:
            if k.get("status", "known") == "known" and k.get("key") == key:
                if key not in [h["key"] for h in self.known_hits]:
                    self.known_hits.append({"key": key, "what": what})
                    print("KNOWN-FINDING: property=%s %s" % (self.pid, what), flush=True)
                try:
                    os.unlink(path)
                except OSError:
                    pass
                return
        if key in [v["key"] for v in self.violations]:
            return
        self.violations.append({"key": key, "what": what, "replay": path, "detail": detail})
        print("VIOLATION property=%s replay=%s" % (self.pid, path), flush=True)
        print("  -> %s :: %s" % (what, detail[:600]), flush=True)

    # ------------------------------------------------------------ finish
    def finish(self):
        wall = time.time() - self.t0
        cov = {
            "states": self.states,
            "transitions": self.queries,
            "traces_validated_against_impl": self.validated,
            "samples": self.samples[:60] or [{"note": "no leaves recorded"}],
            "evaluations": self.states + self.queries,
            "distinct_nontrivial": len(self.sigs),
            "rule": "a case is one feasible path of the instrumented real code (its path condition is a family of inputs) or one direct "
                    "solver query; distinct = distinct leaf signature (outputs / decisions of the path) or distinct query subject; "
                    "counted by hashing, trivial duplicates collapse",
            "obligations": self.obligations,
            "discharged": self.discharged,
            "queries_by_verdict": self.verdicts,
            "solver_seconds": round(self.solver_s, 2),
            "branch_decisions_by_exact_truth_table": self.tt_decisions,
            "functions_encoded": self.functions,
            "bounds": self.bounds,
            "outside_the_claim": self.outside,
            "lemmas": self.lemmas,
            "parts": self.parts,
            "vacuity_twins": self.vacuity,
            "known_findings_hit": self.known_hits,
            "unlisted_violations": [{k: v[k] for k in ("key", "what", "replay")} for v in self.violations],
            "harness_errors": self.harness_errors[:20],
            "trusted_base": self.trusted,
            "checker_cmd": "./check %s --tier %s" % (self.pid, self.tier),
            "source_sha256": _shas(),
            "explanation": "bounded symbolic execution of the repository's own source (regenerated from /repo on this run) "
                           "with z3 deciding every path condition and obligation; see bounds/outside_the_claim",
        }
        if self.exhaustive is not None:
            cov["exhaustive"] = self.exhaustive
        cov.update(self.extra)
        ev = {
            "property_id": self.pid, "tier": self.tier, "seed": self.seed, "level": self.level,
            "coverage": cov, "assumptions": self.assumptions, "wall_s": round(wall, 2),
            "violations": len(self.violations),
        }
        os.makedirs(EVIDENCE_DIR, exist_ok=True)
        tmp = os.path.join(EVIDENCE_DIR, ".%s.json.tmp" % self.pid)
        with open(tmp, "w") as f:
            json.dump(ev, f, indent=1, default=_jd)
        os.replace(tmp, os.path.join(EVIDENCE_DIR, "%s.json" % self.pid))
        status = "OK"
        code = EXIT_OK
        if self.violations:
            status, code = "VIOLATION", EXIT_VIOLATION
        elif self.harness_errors or self.obligations != self.discharged:
            if self.obligations != self.discharged and not self.harness_errors and not self.known_hits:
                print("HARNESS-ERROR property=%s %d obligations not discharged and not turned into replayed violations"
                      % (self.pid, self.obligations - self.discharged))
                status, code = "INCONCLUSIVE", EXIT_HARNESS
            elif self.harness_errors:
                status, code = "INCONCLUSIVE", EXIT_HARNESS
        print("%s %s tier=%s states=%d queries=%d obligations=%d/%d known=%d wall=%.1fs" %
              (self.pid, status, self.tier, self.states, self.queries, self.discharged, self.obligations,
               len(self.known_hits), wall), flush=True)
        return code


def _jd(o):
    try:
        import numpy as np
        if isinstance(o, np.ndarray):
            return o.tolist()
        if isinstance(o, (np.integer,)):
            return int(o)
        if isinstance(o, (np.bool_,)):
            return bool(o)
    except Exception:
        pass
    if isinstance(o, (set, frozenset)):
        return sorted(o)
    return str(o)


def _z3v():
    try:
        import z3
        return z3.get_version_string()
    except Exception:
        return "?"


def _shas():
    from . import loader
    d = loader.all_source_shas()
    return d


def run_replay(path, timeout=600):
    """-> (reproduced: True/False/None, detail)"""
    env = dict(os.environ)
    env["PYTHONPATH"] = VERIF + os.pathsep + env.get("PYTHONPATH", "")
    try:
        p = subprocess.run([PY, "-m", "vlib.replay", path], capture_output=True, text=True, timeout=timeout, env=env, cwd=VERIF)
    except subprocess.TimeoutExpired:
        return None, "replay timed out"
    out = (p.stdout or "").strip().splitlines()
    last = out[-1] if out else ""
    if p.returncode == 1 and last.startswith("REPRODUCED"):
        return True, last
    if p.returncode == 0 and last.startswith("NOT-REPRODUCED"):
        return False, last
    return None, "rc=%s out=%s err=%s" % (p.returncode, "\n".join(out[-5:]), (p.stderr or "")[-800:])


def run_replay_batch(paths, timeout=3600):
    """-> {path: (reproduced, detail)} from ONE fresh process"""
    if len(paths) == 1:
        return {paths[0]: run_replay(paths[0])}
    env = dict(os.environ)
    env["PYTHONPATH"] = VERIF + os.pathsep + env.get("PYTHONPATH", "")
    lst = os.path.join(REPLAY_DIR, "tmp-batch-%d.txt" % os.getpid())
    with open(lst, "w") as f:
        f.write("\n".join(paths))
    out = {}
    try:
        p = subprocess.run([PY, "-m", "vlib.replay", "--batch", lst], capture_output=True, text=True, timeout=timeout, env=env, cwd=VERIF)
        for line in (p.stdout or "").splitlines():
            if line.startswith("BATCH "):
                rec = json.loads(line[6:])
                out[rec["path"]] = (rec["ok"], rec["detail"])
        if p.returncode not in (0, 1):
            for pth in paths:
                out.setdefault(pth, (None, "batch replay rc=%s err=%s" % (p.returncode, (p.stderr or "")[-500:])))
    except subprocess.TimeoutExpired:
        pass
    finally:
        try:
            os.unlink(lst)
        except OSError:
            pass
    return out


# ---------------------------------------------------------------- parallel map
def _runner(args):
    fn, item = args
    try:
        return ("ok", item, fn(item))
    except BaseException as e:
        return ("err", item, "%r\n%s" % (e, traceback.format_exc()[-3000:]))


def pmap(fn, items, procs=None, progress=None):
    """unordered parallel map over forked workers; yields (item, result); harness errors are raised"""
    items = list(items)
    procs = min(procs or NPROC, max(1, len(items)))
    if procs <= 1 or len(items) <= 1:
        for it in items:
            st, item, r = _runner((fn, it))
            if st == "err":
                raise RuntimeError("worker failed on %r: %s" % (item, r))
            yield item, r
        return
    ctx = multiprocessing.get_context("fork")
    with ctx.Pool(procs, maxtasksperchild=None) as pool:
        done = 0
        for st, item, r in pool.imap_unordered(_runner, [(fn, it) for it in items], chunksize=1):
            done += 1
            if progress and done % progress == 0:
                print("  .. %d/%d" % (done, len(items)), flush=True)
            if st == "err":
                pool.terminate()
                raise RuntimeError("worker failed on %r: %s" % (item, r))
            yield item, r
