"""symrun core: hash-consed Boolean DAG (AND/XOR/NOT literals), symbolic unsigned integers built on
it, path exploration (decision-prefix re-execution or os.fork at branch points) and obligation
discharge with z3.  z3 terms are only built at query time.

literal = 2*node + neg ; node 0 is the constant False => literal 0 = False, literal 1 = True
"""
import os, sys, time, json, tempfile, traceback
import z3

# --------------------------------------------------------------------------- literals
_nodes = [('c',)]
_tab = {}
STAT = {"max_width": 0}


def _mk(key):
    i = _tab.get(key)
    if i is None:
        i = len(_nodes)
        _nodes.append(key)
        _tab[key] = i
    return 2 * i


def var(name):
    return _mk(('v', name))


def lnot(a):
    return a ^ 1


def land(a, b):
    if a == 0 or b == 0:
        return 0
    if a == 1:
        return b
    if b == 1:
        return a
    if a == b:
        return a
    if a == b ^ 1:
        return 0
    if a > b:
        a, b = b, a
    return _mk(('a', a, b))


def lor(a, b):
    return land(a ^ 1, b ^ 1) ^ 1


def lxor(a, b):
    if a < 2:
        return b ^ a
    if b < 2:
        return a ^ b
    if a == b:
        return 0
    if a == b ^ 1:
        return 1
    neg = (a & 1) ^ (b & 1)
    a &= ~1
    b &= ~1
    if a > b:
        a, b = b, a
    return _mk(('x', a, b)) ^ neg


def lite(c, a, b):
    """if c then a else b"""
    if c == 1:
        return a
    if c == 0:
        return b
    if a == b:
        return a
    return lor(land(c, a), land(c ^ 1, b))


def leq(a, b):
    return lxor(a, b) ^ 1


def land_all(ls):
    r = 1
    for l in ls:
        r = land(r, l)
        if r == 0:
            return 0
    return r


def lor_all(ls):
    r = 0
    for l in ls:
        r = lor(r, l)
        if r == 1:
            return 1
    return r


def lxor_all(ls):
    r = 0
    for l in ls:
        r = lxor(r, l)
    return r


_z3memo = {}


def toz3(l):
    if l == 0:
        return z3.BoolVal(False)
    if l == 1:
        return z3.BoolVal(True)
    n = l >> 1
    e = _z3memo.get(n)
    if e is None:
        stack = [n]
        while stack:
            m = stack[-1]
            if m in _z3memo:
                stack.pop()
                continue
            k = _nodes[m]
            if k[0] == 'v':
                _z3memo[m] = z3.Bool(k[1])
                stack.pop()
                continue
            ch = [c >> 1 for c in k[1:] if c > 1 and (c >> 1) not in _z3memo]
            if ch:
                stack.extend(ch)
                continue

            def g(c):
                if c < 2:
                    return z3.BoolVal(bool(c))
                return z3.Not(_z3memo[c >> 1]) if c & 1 else _z3memo[c >> 1]
            _z3memo[m] = z3.And(g(k[1]), g(k[2])) if k[0] == 'a' else z3.Xor(g(k[1]), g(k[2]))
            stack.pop()
        e = _z3memo[n]
    return z3.Not(e) if l & 1 else e


def support(l, acc=None):
    """names of the variables a literal depends on"""
    acc = set() if acc is None else acc
    seen = set()
    stack = [l >> 1]
    while stack:
        m = stack.pop()
        if m in seen or m == 0:
            continue
        seen.add(m)
        k = _nodes[m]
        if k[0] == 'v':
            acc.add(k[1])
        else:
            stack.extend(c >> 1 for c in k[1:])
    return acc


def evaluate(l, env):
    """evaluate literal under env: name -> bool (missing = False)"""
    memo = {0: False}
    stack = [l >> 1]
    while stack:
        m = stack[-1]
        if m in memo:
            stack.pop()
            continue
        k = _nodes[m]
        if k[0] == 'v':
            memo[m] = bool(env.get(k[1], False))
            stack.pop()
            continue
        ch = [c >> 1 for c in k[1:] if (c >> 1) not in memo]
        if ch:
            stack.extend(ch)
            continue
        a = memo[k[1] >> 1] ^ bool(k[1] & 1)
        b = memo[k[2] >> 1] ^ bool(k[2] & 1)
        memo[m] = (a and b) if k[0] == 'a' else (a != b)
        stack.pop()
    return memo[l >> 1] ^ bool(l & 1)


# --------------------------------------------------------------------------- truth tables (<= TT_MAX variables)
TT_MAX = 12
_tt = {"vars": None, "index": {}, "memo": {}, "full": 0}


def tt_setup(names):
    """fix the variable order for truth-table evaluation (exact feasibility decisions without solver calls)"""
    names = tuple(names)
    if _tt["vars"] == names:
        return
    k = len(names)
    if k > TT_MAX:
        raise ValueError("too many variables for truth tables")
    _tt["vars"] = names
    _tt["full"] = (1 << (1 << k)) - 1
    _tt["memo"] = {}
    idx = {}
    for i, nme in enumerate(names):
        # bit j of the table = value of variable i in assignment j  (assignment j has variable i = (j >> i) & 1)
        block = (1 << (1 << i)) - 1            # 2^i ones
        period = 1 << (i + 1)
        pat = 0
        for start in range(1 << i, 1 << k, period):
            pat |= block << start
        idx[nme] = pat
    _tt["index"] = idx


_dnf_cache = {}


def _dnf_of(tt):
    """z3 formula whose models (over the registered variables) are exactly the set bits of the truth table"""
    key = (_tt["vars"], tt)
    f = _dnf_cache.get(key)
    if f is not None:
        return f
    names = _tt["vars"]
    k = len(names)
    vs = [z3.Bool(nm) for nm in names]
    full = _tt["full"]
    ones = bin(tt).count("1")
    if tt == full:
        f = z3.BoolVal(True)
    elif ones <= (1 << k) // 2:
        terms = []
        j = 0
        t = tt
        while t:
            if t & 1:
                terms.append(z3.And([vs[i] if (j >> i) & 1 else z3.Not(vs[i]) for i in range(k)]) if k else z3.BoolVal(True))
            t >>= 1
            j += 1
        f = z3.Or(terms) if terms else z3.BoolVal(False)
    else:
        terms = []
        t = tt ^ full
        j = 0
        while t:
            if t & 1:
                terms.append(z3.Or([z3.Not(vs[i]) if (j >> i) & 1 else vs[i] for i in range(k)]))
            t >>= 1
            j += 1
        f = z3.And(terms)
    if len(_dnf_cache) > 2000:
        _dnf_cache.clear()
    _dnf_cache[key] = f
    return f


def tt_disable():
    _tt["vars"] = None
    _tt["memo"] = {}
    _tt["index"] = {}
    _tt["full"] = 0


def tt_of(l):
    """truth table (python int bitmask over all assignments) of a literal, or None if it mentions other variables"""
    memo = _tt["memo"]
    full = _tt["full"]
    if l < 2:
        return full if l else 0
    n = l >> 1
    if n not in memo:
        stack = [n]
        while stack:
            m = stack[-1]
            if m in memo:
                stack.pop()
                continue
            k = _nodes[m]
            if k[0] == 'v':
                memo[m] = _tt["index"].get(k[1])
                stack.pop()
                continue
            ch = [c >> 1 for c in k[1:] if c > 1 and (c >> 1) not in memo]
            if ch:
                stack.extend(ch)
                continue
            vals = []
            for c in k[1:]:
                if c < 2:
                    vals.append(full if c else 0)
                else:
                    t = memo[c >> 1]
                    vals.append(None if t is None else (t ^ full if c & 1 else t))
            if vals[0] is None or vals[1] is None:
                memo[m] = None
            else:
                memo[m] = (vals[0] & vals[1]) if k[0] == 'a' else (vals[0] ^ vals[1])
            stack.pop()
    t = memo[n]
    if t is None:
        return None
    return t ^ full if l & 1 else t


# --------------------------------------------------------------------------- exceptions
class PathAbort(BaseException):
    """path is infeasible / abandoned (BaseException so library `except Exception` cannot swallow it)"""


class Inconclusive(BaseException):
    """solver said unknown / cap hit: never success"""


# --------------------------------------------------------------------------- context
SOLVER_TIMEOUT_MS = int(os.environ.get("VERIF_SOLVER_TIMEOUT_MS", "120000"))


class Ctx:
    cur = None

    def __init__(self, mode="reexec"):
        self.solver = z3.Solver()
        self.solver.set("timeout", SOLVER_TIMEOUT_MS)
        self.prefix = []
        self.pos = 0
        self.pc = []            # literals assumed/decided on this path
        self.queries = 0
        self.solver_time = 0.0
        self.verdicts = {"sat": 0, "unsat": 0, "unknown": 0}
        self.unique = 0         # branch points where only one side was feasible (discharged uniqueness)
        self.forks = 0
        self.mode = mode
        self.obligations = 0
        self.discharged = 0
        self.violations = []
        self.realise_sites = {}
        self.pc_tt = _tt["full"] if _tt["vars"] is not None else None   # exact set of assignments satisfying pc
        self.tt_decisions = 0

    def check(self, *extra):
        t = time.time()
        self.queries += 1
        self._last_solver = self._query_solver()
        r = self._last_solver.check(*extra)
        self.solver_time += time.time() - t
        s = str(r)
        self.verdicts[s] = self.verdicts.get(s, 0) + 1
        if s == "unknown":
            raise Inconclusive("solver returned unknown: %s" % self._last_solver.reason_unknown())
        return s

    def _note(self, l):
        """record a path-condition literal.  In truth-table mode the solver is not touched here: queries get the
        exact set of satisfying assignments as a DNF instead (see _query_solver); otherwise assert incrementally."""
        self.pc.append(l)
        if self.pc_tt is not None:
            t = tt_of(l)
            if t is None:
                # a variable outside the registered set: leave truth-table mode, hand the whole pc to the solver
                self.pc_tt = None
                for x in self.pc:
                    self.solver.add(toz3(x))
            else:
                self.pc_tt &= t
        else:
            self.solver.add(toz3(l))

    def _query_solver(self):
        if self.pc_tt is None:
            return self.solver
        s = z3.Solver()
        s.set("timeout", SOLVER_TIMEOUT_MS)
        s.add(_dnf_of(self.pc_tt))
        return s

    def assume(self, l):
        if l == 1:
            return
        self._note(l)

    def feasible(self):
        return self.check() == "sat"

    def _decide(self, l):
        """-> (decision, other_side_pending)"""
        if self.pc_tt is not None:
            t = tt_of(l)
            if t is not None:
                # exact decision by truth table over the (few) symbolic variables: no solver call
                self.tt_decisions += 1
                can_t = (self.pc_tt & t) != 0
                can_f = (self.pc_tt & ~t & _tt["full"]) != 0
                if not can_t and not can_f:
                    raise PathAbort("infeasible path condition")
                if can_t:
                    return True, can_f
                return False, False
        c = toz3(l)
        can_t = self.check(c) == "sat"
        if not can_t:
            # path condition itself might be infeasible; then both are infeasible
            can_f = self.check(z3.Not(c)) == "sat"
            if not can_f:
                raise PathAbort("infeasible path condition")
            return False, False
        can_f = self.check(z3.Not(c)) == "sat"
        return True, can_f

    def branch(self, l):
        if l == 1:
            return True
        if l == 0:
            return False
        if self.mode == "reexec":
            if self.pos < len(self.prefix):
                d, _ = self.prefix[self.pos]
            else:
                d, pending = self._decide(l)
                self.prefix.append((d, pending))
                if not pending:
                    self.unique += 1
            self.pos += 1
        else:
            d, pending = self._decide(l)
            if pending:
                self.forks += 1
                sys.stdout.flush()
                sys.stderr.flush()
                pid = os.fork()
                if pid == 0:
                    _fork_child_reset(self)
                    d = True
                else:
                    _, status = os.waitpid(pid, 0)
                    if status != 0:
                        _fork_note_child_failure(status)
                    d = False
            else:
                self.unique += 1
        lit = l if d else l ^ 1
        self._note(lit)
        return d

    def model_count(self):
        """number of assignments of the registered variables satisfying the path condition (truth-table mode)"""
        return None if self.pc_tt is None else bin(self.pc_tt).count("1")

    # ---- obligations
    def prove(self, label, l, witness_vars=None, info=None):
        """obligation: under the current path condition literal l holds for all values"""
        self.obligations += 1
        if l == 1:
            self.discharged += 1
            return True
        if l != 0:
            r = self.check(toz3(l ^ 1))
            if r == "unsat":
                self.discharged += 1
                return True
        else:
            if self.check() != "sat":
                self.discharged += 1   # vacuous on an infeasible path (cannot happen after branch())
                return True
        m = self._last_solver.model()
        env = {}
        for d in m.decls():
            v = m[d]
            if z3.is_true(v):
                env[d.name()] = True
            elif z3.is_false(v):
                env[d.name()] = False
        self.violations.append({"label": label, "model": env, "info": info})
        return False

    def model_env(self):
        """a model of the current path condition (name -> bool)"""
        if self.check() != "sat":
            raise PathAbort("infeasible")
        m = self._last_solver.model()
        env = {}
        for d in m.decls():
            v = m[d]
            if z3.is_true(v):
                env[d.name()] = True
            elif z3.is_false(v):
                env[d.name()] = False
        return env


_FORK = {"fd": None, "root_pid": None, "child_failed": False}


def _fork_child_reset(ctx):
    ctx.queries = 0
    ctx.solver_time = 0.0
    ctx.verdicts = {"sat": 0, "unsat": 0, "unknown": 0}
    ctx.unique = 0
    ctx.forks = 0
    ctx.obligations = 0
    ctx.discharged = 0
    ctx.violations = []
    ctx.tt_decisions = 0
    ctx.is_child = True


def _fork_note_child_failure(status):
    _FORK["child_failed"] = True


def _stats_of(ctx):
    return dict(queries=ctx.queries, solver_s=ctx.solver_time, verdicts=ctx.verdicts, unique=ctx.unique,
                forks=ctx.forks, obligations=ctx.obligations, discharged=ctx.discharged, tt=ctx.tt_decisions)


class Result:
    def __init__(self):
        self.paths = 0
        self.queries = 0
        self.solver_s = 0.0
        self.verdicts = {"sat": 0, "unsat": 0, "unknown": 0}
        self.unique = 0
        self.forks = 0
        self.obligations = 0
        self.discharged = 0
        self.violations = []
        self.leaves = []
        self.errors = []
        self.aborted = 0
        self.tt_decisions = 0
        self.sigs = []          # short hashes of every leaf description (distinct-case counting survives leaf truncation)

    def note_leaf(self, leaf):
        import hashlib
        self.sigs.append(hashlib.sha1(json.dumps(leaf, sort_keys=True, default=str).encode()).hexdigest()[:12])

    def absorb_stats(self, st):
        self.tt_decisions += st.get("tt", 0)
        self.queries += st["queries"]
        self.solver_s += st["solver_s"]
        for k, v in st["verdicts"].items():
            self.verdicts[k] = self.verdicts.get(k, 0) + v
        self.unique += st["unique"]
        self.forks += st["forks"]
        self.obligations += st["obligations"]
        self.discharged += st["discharged"]

    def merge(self, o):
        self.paths += o.paths
        self.absorb_stats(dict(queries=o.queries, solver_s=o.solver_s, verdicts=o.verdicts, unique=o.unique,
                               forks=o.forks, obligations=o.obligations, discharged=o.discharged, tt=o.tt_decisions))
        self.violations += o.violations
        self.leaves += o.leaves
        self.sigs += o.sigs
        self.errors += o.errors
        self.aborted += o.aborted
        return self

    def to_json(self):
        return self.__dict__

    @staticmethod
    def from_json(d):
        r = Result()
        r.__dict__.update(d)
        return r

    @property
    def ok(self):
        return not self.violations and not self.errors and self.obligations == self.discharged


def explore(fn, mode="reexec", max_paths=None, keep_leaves=True):
    """Run fn() over every feasible path.  fn uses Ctx.cur (assume/branch/prove) and returns a JSON-able
    leaf description (or None).  Returns a Result."""
    if mode == "fork":
        return _explore_fork(fn, max_paths, keep_leaves)
    res = Result()
    prefix = []
    while True:
        ctx = Ctx("reexec")
        ctx.prefix = prefix
        Ctx.cur = ctx
        leaf = None
        try:
            leaf = fn()
            res.paths += 1
        except PathAbort:
            res.aborted += 1
        except Inconclusive as e:
            res.errors.append("inconclusive: %s" % e)
        res.absorb_stats(_stats_of(ctx))
        res.violations += ctx.violations
        if leaf is not None:
            res.note_leaf(leaf)
        if keep_leaves and leaf is not None:
            res.leaves.append(leaf)
        if res.errors:
            return res
        if max_paths is not None and res.paths >= max_paths:
            res.errors.append("path cap %d hit" % max_paths)
            return res
        prefix = ctx.prefix
        while prefix and not prefix[-1][1]:
            prefix.pop()
        if not prefix:
            return res
        d, _ = prefix.pop()
        prefix.append((not d, False))


def _explore_fork(fn, max_paths, keep_leaves):
    """DFS with os.fork at every two-sided branch: the child takes the True side, the parent waits and
    then takes the False side.  No prefix is ever re-executed.  Leaves report through an append-only file."""
    res = Result()
    fd, path = tempfile.mkstemp(prefix="symrun-", suffix=".jsonl")
    os.close(fd)
    sys.stdout.flush()
    sys.stderr.flush()
    top = os.fork()
    if top == 0:
        code = 0
        ctx = Ctx("fork")
        Ctx.cur = ctx
        rec = {}
        try:
            leaf = fn()
            rec["leaf"] = leaf if keep_leaves else None
            rec["path"] = 1
        except PathAbort:
            rec["aborted"] = 1
        except Inconclusive as e:
            rec["error"] = "inconclusive: %s" % e
        except BaseException as e:   # harness bug or unexpected library exception outside fn's own handling
            rec["error"] = "exception: %s\n%s" % (repr(e), traceback.format_exc()[-1500:])
        ctx = Ctx.cur
        rec["stats"] = _stats_of(ctx)
        rec["violations"] = ctx.violations
        try:
            with open(path, "a") as f:
                f.write(json.dumps(rec) + "\n")
        except BaseException:
            code = 3
        os._exit(code)
    os.waitpid(top, 0)
    try:
        with open(path) as f:
            for line in f:
                rec = json.loads(line)
                res.absorb_stats(rec["stats"])
                res.violations += rec["violations"]
                if rec.get("path"):
                    res.paths += 1
                    if rec.get("leaf") is not None:
                        res.note_leaf(rec["leaf"])
                        res.leaves.append(rec["leaf"])
                if rec.get("aborted"):
                    res.aborted += 1
                if rec.get("error"):
                    res.errors.append(rec["error"])
    finally:
        os.unlink(path)
    # every fork must have produced a record: paths + aborted + errors == forks + 1
    if res.paths + res.aborted + len(res.errors) != res.forks + 1:
        res.errors.append("fork bookkeeping mismatch: %d records for %d forks" %
                          (res.paths + res.aborted + len(res.errors), res.forks))
    if max_paths is not None and res.paths > max_paths:
        res.errors.append("path cap %d exceeded" % max_paths)
    return res


# --------------------------------------------------------------------------- symbolic values
class SB:
    """symbolic Boolean; truth-testing forks the path"""
    __slots__ = ("l",)

    def __init__(self, l):
        self.l = l

    def __bool__(self):
        return Ctx.cur.branch(self.l)

    def __invert__(self):
        return mkb(self.l ^ 1)

    def __and__(self, o):
        return mkb(land(self.l, litof(o)))
    __rand__ = __and__

    def __or__(self, o):
        return mkb(lor(self.l, litof(o)))
    __ror__ = __or__

    def __xor__(self, o):
        return mkb(lxor(self.l, litof(o)))
    __rxor__ = __xor__

    def __eq__(self, o):
        return mkb(leq(self.l, litof(o)))

    def __ne__(self, o):
        return mkb(lxor(self.l, litof(o)))

    def __hash__(self):
        return hash(("SB", self.l))

    def __int__(self):
        return int(bool(self))
    __index__ = __int__

    def __deepcopy__(self, memo):
        return self

    def __copy__(self):
        return self

    def __repr__(self):
        return "SB(%d)" % self.l


def mkb(l):
    return bool(l) if l < 2 else SB(l)


def litof(x):
    """truthiness literal of a python / symbolic value"""
    if isinstance(x, SB):
        return x.l
    if isinstance(x, SV):
        return x.eql(0) ^ 1
    return 1 if x else 0


def _trim(bits):
    n = len(bits)
    while n and bits[n - 1] == 0:
        n -= 1
    return bits[:n]


def mk(bits):
    bits = _trim(tuple(bits))
    for b in bits:
        if b >= 2:
            if len(bits) > STAT["max_width"]:
                STAT["max_width"] = len(bits)
            return SV(bits)
    v = 0
    for i, b in enumerate(bits):
        v |= b << i
    return v


def bitsof(x):
    if isinstance(x, SV):
        return x.bits
    if isinstance(x, SB):
        return (x.l,)
    x = int(x)
    if x < 0:
        raise ValueError("negative value in unsigned symbolic arithmetic: %d" % x)
    out = []
    while x:
        out.append(x & 1)
        x >>= 1
    return tuple(out)


def _isarr(o):
    return hasattr(o, "__array_priority__")


class SV:
    """symbolic unsigned (mathematical, non-wrapping) integer: little-endian tuple of literals"""
    __slots__ = ("bits",)
    __array_priority__ = None  # replaced below; SV must not look like an array

    def __init__(self, bits):
        self.bits = bits

    # ---- arithmetic
    def __add__(self, o):
        if _isarr(o):
            return NotImplemented
        a = self.bits
        b = bitsof(o)
        n = max(len(a), len(b))
        out = []
        c = 0
        for i in range(n):
            x = a[i] if i < len(a) else 0
            y = b[i] if i < len(b) else 0
            t = lxor(x, y)
            out.append(lxor(t, c))
            c = lor(land(x, y), land(c, t))
        out.append(c)
        return mk(out)
    __radd__ = __add__

    def __mul__(self, o):
        if _isarr(o):
            return NotImplemented
        b = bitsof(o)
        acc = 0
        for i, x in enumerate(self.bits):
            if x == 0:
                continue
            term = mk((0,) * i + tuple(land(x, y) for y in b))
            acc = acc + term
        return acc
    __rmul__ = __mul__

    def _sub(a_bits, b_bits):
        """a - b; adds the guard `no borrow` as a proved side condition"""
        n = max(len(a_bits), len(b_bits))
        out = []
        br = 0
        for i in range(n):
            x = a_bits[i] if i < len(a_bits) else 0
            y = b_bits[i] if i < len(b_bits) else 0
            t = lxor(x, y)
            out.append(lxor(t, br))
            br = lor(land(x ^ 1, y), land(t ^ 1, br))
        if br != 0:
            ctx = Ctx.cur
            if not ctx.prove("unsigned-subtraction-no-borrow", br ^ 1):
                raise PathAbort("negative intermediate value in unsigned model")
        return mk(out)

    def __sub__(self, o):
        if _isarr(o):
            return NotImplemented
        return SV._sub(self.bits, bitsof(o))

    def __rsub__(self, o):
        if _isarr(o):
            return NotImplemented
        return SV._sub(bitsof(o), self.bits)

    def __mod__(self, m):
        if _isarr(m):
            return NotImplemented
        if isinstance(m, int) and m > 0 and (m & (m - 1)) == 0:
            return mk(self.bits[:m.bit_length() - 1])
        return int(self) % m

    def __floordiv__(self, m):
        if isinstance(m, int) and m > 0 and (m & (m - 1)) == 0:
            return mk(self.bits[m.bit_length() - 1:])
        return int(self) // m

    def __lshift__(self, k):
        k = int(k)
        return mk((0,) * k + tuple(self.bits))

    def __rlshift__(self, o):      # 1 << sym : realise the shift amount
        return int(o) << int(self)

    def __rshift__(self, k):
        return mk(self.bits[int(k):])

    def _bw(self, o, f):
        a = self.bits
        b = bitsof(o)
        n = max(len(a), len(b))
        return mk([f(a[i] if i < len(a) else 0, b[i] if i < len(b) else 0) for i in range(n)])

    def __xor__(self, o):
        if _isarr(o):
            return NotImplemented
        return self._bw(o, lxor)
    __rxor__ = __xor__

    def __and__(self, o):
        if _isarr(o):
            return NotImplemented
        return self._bw(o, land)
    __rand__ = __and__

    def __or__(self, o):
        if _isarr(o):
            return NotImplemented
        return self._bw(o, lor)
    __ror__ = __or__

    def __neg__(self):
        raise ValueError("negation in unsigned symbolic arithmetic")

    def __pos__(self):
        return self

    def __abs__(self):
        return self

    # ---- comparisons
    def eql(self, o):
        a = self.bits
        b = bitsof(o)
        n = max(len(a), len(b))
        e = 1
        for i in range(n):
            e = land(e, lxor(a[i] if i < len(a) else 0, b[i] if i < len(b) else 0) ^ 1)
        return e

    @staticmethod
    def _ltl(a, b):
        n = max(len(a), len(b))
        lt = 0
        for i in range(n):
            x = a[i] if i < len(a) else 0
            y = b[i] if i < len(b) else 0
            lt = lor(land(x ^ 1, y), land(lxor(x, y) ^ 1, lt))
        return lt

    def __eq__(self, o):
        if _isarr(o):
            return NotImplemented
        if o is None or isinstance(o, (str, list, tuple, dict)):
            return False
        if isinstance(o, int) and o < 0:
            return False
        return mkb(self.eql(o))

    def __ne__(self, o):
        if _isarr(o):
            return NotImplemented
        if o is None or isinstance(o, (str, list, tuple, dict)):
            return True
        if isinstance(o, int) and o < 0:
            return True
        return mkb(self.eql(o) ^ 1)

    def __lt__(self, o):
        if _isarr(o):
            return NotImplemented
        if isinstance(o, int) and o <= 0:
            return False
        return mkb(SV._ltl(self.bits, bitsof(o)))

    def __gt__(self, o):
        if _isarr(o):
            return NotImplemented
        if isinstance(o, int) and o < 0:
            return True
        return mkb(SV._ltl(bitsof(o), self.bits))

    def __le__(self, o):
        if _isarr(o):
            return NotImplemented
        if isinstance(o, int) and o < 0:
            return False
        return mkb(SV._ltl(bitsof(o), self.bits) ^ 1)

    def __ge__(self, o):
        if _isarr(o):
            return NotImplemented
        if isinstance(o, int) and o <= 0:
            return True
        return mkb(SV._ltl(self.bits, bitsof(o)) ^ 1)

    def __bool__(self):
        return Ctx.cur.branch(self.eql(0) ^ 1)

    def __hash__(self):
        return hash(self.bits)

    def __deepcopy__(self, memo):
        return self

    def __copy__(self):
        return self

    # ---- realisation: enumerate every feasible value (bitwise all-SAT, forks per feasible bit value)
    def realize(self):
        ctx = Ctx.cur
        v = 0
        for i, b in enumerate(self.bits):
            if ctx.branch(b):
                v |= 1 << i
        return v
    __index__ = realize
    __int__ = realize

    def __str__(self):
        return str(self.realize())

    def __format__(self, spec):
        return format(self.realize(), spec)

    def __repr__(self):
        return "SV(%s)" % (self.bits,)

    def bit_count(self):
        acc = 0
        for b in self.bits:
            acc = acc + mk((b,))
        return acc


del SV.__array_priority__


def symbit(name):
    return mk((var(name),))


def symint(name, width):
    return mk(tuple(var("%s.%d" % (name, i)) for i in range(width)))


def as_lit(x):
    """literal for `x == 1` of a 0/1-valued entry"""
    if isinstance(x, SV):
        return x.eql(1)
    if isinstance(x, SB):
        return x.l
    return 1 if int(x) == 1 else 0


def bit0(x):
    """least significant bit literal of an int / SV"""
    if isinstance(x, SV):
        return x.bits[0] if x.bits else 0
    if isinstance(x, SB):
        return x.l
    return int(x) & 1
