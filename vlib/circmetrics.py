"""Two-qubit gate count (SWAP = 3) and ASAP two-qubit depth of a gate list, independent of the library."""


def two_qubit_count(gates):
    c = 0
    for name, qs in gates:
        if len(qs) == 2:
            c += 3 if name == "swap" else 1
        elif len(qs) > 2:
            raise ValueError("gate on more than two qubits: %r" % ((name, qs),))
    return c


def two_qubit_depth(gates, n):
    t = [0] * n
    for name, qs in gates:
        if len(qs) == 2:
            w = 3 if name == "swap" else 1
            d = max(t[qs[0]], t[qs[1]]) + w
            t[qs[0]] = t[qs[1]] = d
    return max(t) if t else 0


def skeleton(gates):
    """ordered list of the multi-qubit instructions"""
    return [(name, tuple(qs)) for name, qs in gates if len(qs) >= 2]


def skeleton_canon(gates, n):
    """order-insensitive (DAG) form of the two-qubit skeleton: for every qubit the ordered sequence of the
    multi-qubit instructions touching it.  Two gate lists that differ only by reordering instructions on disjoint
    qubits (as qiskit's DAG round trip may do) have the same canonical form."""
    per = [[] for _ in range(n)]
    for name, qs in gates:
        if len(qs) >= 2:
            for q in qs:
                per[q].append((name, tuple(qs)))
    return per
