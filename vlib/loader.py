"""Loads /repo/src/htstabilizer/*.py from the *current working tree* into a private package `hts_sym`
whose modules see the NumPy proxy (and, optionally, AST-level instrumentation).  The native package
`htstabilizer` is importable side by side for replay and translator validation."""
import ast, hashlib, importlib, importlib.abc, importlib.util, os, sys, types

REPO_SRC = os.environ.get("VERIF_REPO_SRC", "/repo/src")
PKG_DIR = os.path.join(REPO_SRC, "htstabilizer")
SYM_PKG = "hts_sym"

_shas = {}
_transformers = []     # list of (predicate(modname) -> bool, ast.NodeTransformer factory)
_extra_globals = {}    # name -> value injected into every instrumented module


def file_shas():
    return dict(_shas)


def all_source_shas():
    out = {}
    for fn in sorted(os.listdir(PKG_DIR)):
        if fn.endswith(".py"):
            with open(os.path.join(PKG_DIR, fn), "rb") as f:
                out["src/htstabilizer/" + fn] = hashlib.sha256(f.read()).hexdigest()
    return out


def data_shas(prefix=""):
    out = {}
    d = os.path.join(PKG_DIR, "data")
    for fn in sorted(os.listdir(d)):
        if fn.endswith(".txt") and fn.startswith(prefix):
            with open(os.path.join(d, fn), "rb") as f:
                out["src/htstabilizer/data/" + fn] = hashlib.sha256(f.read()).hexdigest()
    return out


def add_transformer(pred, factory):
    _transformers.append((pred, factory))


def add_global(name, value):
    _extra_globals[name] = value


class _Finder(importlib.abc.MetaPathFinder, importlib.abc.Loader):
    def find_spec(self, fullname, path, target=None):
        if fullname == SYM_PKG:
            return importlib.util.spec_from_loader(fullname, self, is_package=True)
        if fullname.startswith(SYM_PKG + "."):
            sub = fullname[len(SYM_PKG) + 1:]
            if sub == "data":
                # a genuine source-file package over the same directory, so importlib.resources works on it
                d = os.path.join(PKG_DIR, "data")
                return importlib.util.spec_from_file_location(fullname, os.path.join(d, "__init__.py"), submodule_search_locations=[d])
            if os.path.exists(os.path.join(PKG_DIR, sub + ".py")):
                return importlib.util.spec_from_loader(fullname, self)
        return None

    def create_module(self, spec):
        return None

    def exec_module(self, module):
        name = module.__name__
        if name == SYM_PKG:
            module.__path__ = []
            return
        if name == SYM_PKG + ".data" or name == "htstabilizer.data":
            return
        sub = name[len(SYM_PKG) + 1:]
        fn = os.path.join(PKG_DIR, sub + ".py")
        with open(fn, "rb") as f:
            raw = f.read()
        _shas["src/htstabilizer/%s.py" % sub] = hashlib.sha256(raw).hexdigest()
        tree = ast.parse(raw.decode("utf-8"), filename=fn)
        for pred, factory in _transformers:
            if pred(sub):
                tree = factory().visit(tree)
                ast.fix_missing_locations(tree)
        code = compile(tree, fn, "exec")
        module.__file__ = fn
        exec(code, module.__dict__)
        from .symnp import npx
        if "np" in module.__dict__:
            module.__dict__["np"] = npx
        for k, v in _extra_globals.items():
            module.__dict__[k] = v
        _take_snapshot(sub, module)


_snapshots = {}


def snapshot_state(modname):
    """the snapshot is taken automatically right after import; this only forces the import"""
    sym(modname)


def _take_snapshot(modname, mod):
    import copy
    snap = {}
    for k, v in mod.__dict__.items():
        if isinstance(v, (dict, list, set)) and not k.startswith("__"):
            try:
                snap[k] = copy.deepcopy(v)
            except Exception:
                pass
    _snapshots[modname] = snap


def reset_state(modname):
    """restore module-level containers to the snapshot, so that no state leaks from one explored path
    (or one harness step) into the next; new container globals are emptied"""
    import copy
    mod = sym(modname)
    snap = _snapshots.get(modname, {})
    for k, v in list(mod.__dict__.items()):
        if isinstance(v, (dict, list, set)) and not k.startswith("__"):
            base = snap.get(k, type(v)())
            if len(v) == 0 and len(base) == 0:
                continue
            if isinstance(v, list):
                v[:] = copy.deepcopy(base)
            else:
                v.clear()
                v.update(copy.deepcopy(base))


_installed = False


def install():
    global _installed
    if _installed:
        return
    if REPO_SRC not in sys.path:
        sys.path.insert(0, REPO_SRC)
    sys.meta_path.insert(0, _Finder())
    _installed = True


def sym(modname):
    """instrumented module hts_sym.<modname>"""
    install()
    return importlib.import_module(SYM_PKG + "." + modname)


def native(modname):
    install()
    return importlib.import_module("htstabilizer." + modname)
