"""Tomography harness: the state is symbolic.  rho = 2^-N sum_P r_P P with r_I = 1 and every other Pauli
coefficient a free real unknown (a superset of all density matrices).  Exact outcome distributions of the returned
measurement circuits are rational linear forms in the r_P (computed with the independent tableau oracle ztab from
the circuits' gate lists); they are handed to the REAL fitter through a duck-typed result object, and every value the
fitter returns is compared with the expected linear form - discharged as a linear-real-arithmetic validity query."""
import itertools
from fractions import Fraction
import numpy as np
import z3
from . import ztab

I_LABEL = None


class Lin:
    """exact linear form  sum_k c_k * r_k + c_1  with complex-rational coefficients (pairs of Fractions)"""
    __slots__ = ("t",)
    __array_ufunc__ = None

    def __init__(self, t=None):
        self.t = {}
        if t:
            for k, v in t.items():
                if v[0] != 0 or v[1] != 0:
                    self.t[k] = v

    @staticmethod
    def const(c):
        return Lin({1: _cf(c)})

    @staticmethod
    def unknown(name):
        return Lin({name: (Fraction(1), Fraction(0))})

    @staticmethod
    def lift(x):
        return x if isinstance(x, Lin) else Lin.const(x)

    def __add__(self, o):
        if isinstance(o, np.ndarray):
            return _elementwise(o, lambda e: self + e)
        o = Lin.lift(o)
        t = dict(self.t)
        for k, v in o.t.items():
            a = t.get(k, (0, 0))
            t[k] = (a[0] + v[0], a[1] + v[1])
        return Lin(t)
    __radd__ = __add__

    def __neg__(self):
        return Lin({k: (-v[0], -v[1]) for k, v in self.t.items()})

    def __sub__(self, o):
        if isinstance(o, np.ndarray):
            return _elementwise(o, lambda e: self - e)
        return self + (-Lin.lift(o))

    def __rsub__(self, o):
        if isinstance(o, np.ndarray):
            return _elementwise(o, lambda e: e - self)
        return Lin.lift(o) - self

    def __mul__(self, o):
        if isinstance(o, np.ndarray):
            return _elementwise(o, lambda e: self * e)
        if isinstance(o, Lin):
            if set(o.t) <= {1}:
                o = o.t.get(1, (Fraction(0), Fraction(0)))
            elif set(self.t) <= {1}:
                return o * self
            else:
                raise NonLinear("product of two non-constant linear forms")
        c = _cf(o)
        return Lin({k: (v[0] * c[0] - v[1] * c[1], v[0] * c[1] + v[1] * c[0]) for k, v in self.t.items()})
    __rmul__ = __mul__

    def __truediv__(self, o):
        o = Lin.lift(o)
        if set(o.t) != {1}:
            raise NonLinear("division by a non-constant (or zero) linear form: %r" % (o,))
        a, b = o.t[1]
        d = a * a + b * b
        return self * (a / d, -b / d)

    def __eq__(self, o):
        if isinstance(o, np.ndarray):
            return NotImplemented
        return self.t == Lin.lift(o).t

    def __hash__(self):
        return hash(tuple(sorted((str(k), v) for k, v in self.t.items())))

    def __repr__(self):
        return "Lin(%s)" % {k: (str(v[0]) if v[1] == 0 else "%s+%si" % v) for k, v in self.t.items()}

    def conjugate(self):
        return Lin({k: (v[0], -v[1]) for k, v in self.t.items()})


class NonLinear(Exception):
    pass


def _cf(c):
    if isinstance(c, tuple):
        return (Fraction(c[0]), Fraction(c[1]))
    if isinstance(c, (complex, np.complexfloating)):
        return (Fraction(float(c.real)), Fraction(float(c.imag)))
    if isinstance(c, (float, np.floating)):
        return (Fraction(float(c)), Fraction(0))
    if isinstance(c, (int, np.integer, Fraction, bool, np.bool_)):
        return (Fraction(int(c)) if not isinstance(c, Fraction) else c, Fraction(0))
    raise TypeError("cannot lift %r into a linear form" % (c,))


def _elementwise(arr, f):
    out = np.empty(arr.shape, dtype=object)
    for idx in np.ndindex(*arr.shape):
        out[idx] = f(arr[idx])
    return out


def label_of_xz(x, z):
    """qubit-0-first label"""
    return "".join("IXZY"[a + 2 * b] for a, b in zip(x, z))


def unknown_for(label):
    """r_P for a qubit-0-first unsigned label (identity -> constant 1)"""
    if set(label) <= {"I"}:
        return Lin.const(1)
    return Lin.unknown(label)


def exact_counts(gates, N):
    """outcome distribution of `gates` (unitary part of a circuit on N qubits, all N measured) on the symbolic state:
    p(b) = 2^-N sum_s (-1)^(s.b) Tr(rho U^dag Z^s U);  keys are little-endian bit strings (qubit 0 rightmost)"""
    pulled = []
    for s in range(2 ** N):
        p = ztab.pull(ztab.P([0] * N, [(s >> q) & 1 for q in range(N)], 0), gates)
        pulled.append((s, -1 if p.r else 1, label_of_xz(p.x, p.z)))
    counts = {}
    scale = Fraction(1, 2 ** N)
    for b in range(2 ** N):
        acc = {}
        for s, sign, lab in pulled:
            c = sign * (-1 if bin(s & b).count("1") & 1 else 1)
            key = 1 if set(lab) <= {"I"} else lab
            acc[key] = acc.get(key, 0) + c
        counts[format(b, "0%db" % N)] = Lin({k: (Fraction(v) * scale, Fraction(0)) for k, v in acc.items()})
    return counts


class FakeResult:
    def __init__(self, counts_list):
        self._c = counts_list

    def get_counts(self):
        return self._c if len(self._c) != 1 else self._c[0]


def pauli_label_q0first(p):
    """qiskit Pauli -> (qubit-0-first unsigned label, phase)"""
    lab = p.to_label()
    ph = 0
    while lab and lab[0] in "+-i":
        lab = lab[1:]
    return lab[::-1], int(p.phase)


class Prover:
    """discharges `lhs == rhs for all real values of the unknowns` as an LRA validity query (z3), batched"""

    def __init__(self):
        self.n = 0
        self.t = 0.0
        self.verdicts = {"sat": 0, "unsat": 0, "unknown": 0}
        self._vars = {}

    def _z(self, lin, part):
        terms = []
        for k, v in lin.t.items():
            c = v[part]
            if c == 0:
                continue
            q = z3.RatVal(c.numerator, c.denominator)
            if k == 1:
                terms.append(q)
            else:
                if k not in self._vars:
                    self._vars[k] = z3.Real("r_" + k)
                terms.append(q * self._vars[k])
        return z3.Sum(terms) if terms else z3.RealVal(0)

    def all_equal(self, pairs):
        """pairs: [(lhs Lin, rhs Lin)] -> index of a pair that can differ, or None when all are valid equalities"""
        import time
        s = z3.Solver()
        s.set("timeout", 120000)
        dis = []
        for a, b in pairs:
            if a.t == b.t:
                continue
            dis.append(z3.Or(self._z(a, 0) != self._z(b, 0), self._z(a, 1) != self._z(b, 1)))
        # the syntactically equal pairs are still stated to the solver in aggregate form (sum of both sides)
        tot_a = Lin()
        tot_b = Lin()
        for i, (a, b) in enumerate(pairs):
            w = Fraction(i + 1)
            tot_a = tot_a + a * w
            tot_b = tot_b + b * w
        dis.append(z3.Or(self._z(tot_a, 0) != self._z(tot_b, 0), self._z(tot_a, 1) != self._z(tot_b, 1)))
        s.add(z3.Or(dis))
        t = time.time()
        r = str(s.check())
        self.t += time.time() - t
        self.n += 1
        self.verdicts[r] = self.verdicts.get(r, 0) + 1
        if r == "unsat":
            return None
        if r == "unknown":
            return -1
        for i, (a, b) in enumerate(pairs):
            if a.t != b.t:
                return i
        return 0


def expected_density(keys_values, k):
    """sum value * P / 2^k for qubit-0-first labels on k qubits, as an object matrix of Lin (qubit 0 least significant)"""
    from .dense import pauli_matrix
    dim = 2 ** k
    M = np.empty((dim, dim), dtype=object)
    for idx in np.ndindex(dim, dim):
        M[idx] = Lin()
    for lab, val in keys_values:
        pm = pauli_matrix(lab)
        nz = np.nonzero(pm)
        for a, b in zip(*nz):
            M[a, b] = M[a, b] + val * complex(pm[a, b]) * Fraction(1, dim)
    return M
