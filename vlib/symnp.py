"""NumPy proxy for the instrumented copy of the library: real NumPy does all shape work on dtype=object
arrays; element arithmetic goes through Python operators and therefore through core.SV / core.SB.
A SymArray carries a *nominal* dtype so that the library's own dtype tests behave as on native arrays."""
import types
import numpy as real_np
from . import core
from .core import SV, SB, mkb, land, lor, litof, land_all, lor_all


def _py(x):
    """normalise a scalar element to python int / bool / SV / SB"""
    if isinstance(x, (SV, SB)):
        return x
    if isinstance(x, (real_np.bool_, bool)):
        return int(bool(x))
    if isinstance(x, real_np.integer):
        return int(x)
    return x


class SymArray(real_np.ndarray):
    __array_priority__ = 100.0

    def __new__(cls, arr, nominal=real_np.int8):
        if isinstance(arr, real_np.ndarray) and not isinstance(arr, SymArray) and arr.dtype != object:
            a = real_np.empty(arr.shape, dtype=object)
            flat = arr.reshape(-1)
            af = a.reshape(-1)
            for i in range(flat.shape[0]):
                af[i] = _py(flat[i])
            o = a.view(cls)
        else:
            o = _obj_array(arr).view(cls)
        o._nom = real_np.dtype(nominal)
        return o

    def __array_finalize__(self, obj):
        self._nom = getattr(obj, "_nom", real_np.dtype(real_np.int8))

    @property
    def dtype(self):
        return self._nom

    def astype(self, dt, *a, **k):
        dt = real_np.dtype(dt)
        r = self.copy()
        if dt == real_np.dtype(bool):
            f = r.reshape(-1)
            for i in range(f.shape[0]):
                e = f[i]
                f[i] = e if isinstance(e, SB) else (mkb(litof(e)) if isinstance(e, SV) else bool(e))
        elif self._nom == real_np.dtype(bool):
            f = r.reshape(-1)
            for i in range(f.shape[0]):
                e = f[i]
                f[i] = core.mk((e.l,)) if isinstance(e, SB) else int(e)
        r._nom = dt
        return r

    # ---- reductions that must not fork
    def _reduce(self, f, unit, axis):
        if axis is None:
            return mkb(f([litof(e) for e in real_np.ndarray.reshape(self, -1)]))
        moved = real_np.moveaxis(real_np.asarray(self), axis, -1)
        out = real_np.empty(moved.shape[:-1], dtype=object)
        for idx in real_np.ndindex(*moved.shape[:-1]):
            out[idx] = mkb(f([litof(e) for e in moved[idx]]))
        r = out.view(SymArray)
        r._nom = real_np.dtype(bool)
        return r

    def all(self, axis=None, **kw):
        return self._reduce(land_all, 1, axis)

    def any(self, axis=None, **kw):
        return self._reduce(lor_all, 0, axis)

    def sum(self, axis=None, **kw):
        if axis is None:
            acc = 0
            for e in real_np.ndarray.reshape(self, -1):
                acc = acc + (core.mk((e.l,)) if isinstance(e, SB) else e)
            return acc
        moved = real_np.moveaxis(real_np.asarray(self), axis, -1)
        out = real_np.empty(moved.shape[:-1], dtype=object)
        for idx in real_np.ndindex(*moved.shape[:-1]):
            acc = 0
            for e in moved[idx]:
                acc = acc + (core.mk((e.l,)) if isinstance(e, SB) else e)
            out[idx] = acc
        r = out.view(SymArray)
        r._nom = real_np.dtype(real_np.int64)
        return r

    def __matmul__(self, o):
        return _matmul(self, o)

    def __rmatmul__(self, o):
        return _matmul(o, self)

    def __eq__(self, o):
        return _cmp(self, o, lambda a, b: a == b)

    def __ne__(self, o):
        return _cmp(self, o, lambda a, b: a != b)

    def __hash__(self):
        return id(self)

    def __bool__(self):
        if self.size != 1:
            raise ValueError("The truth value of an array with more than one element is ambiguous.")
        return bool(real_np.ndarray.reshape(self, -1)[0])

    def __deepcopy__(self, memo):
        return self.copy()

    def tolist(self):
        return real_np.asarray(self).tolist()

    def realise(self):
        """native array of the nominal dtype; symbolic entries are realised (forks per feasible value)"""
        A = real_np.asarray(self)
        out = real_np.zeros(A.shape, dtype=self._nom)
        for idx in real_np.ndindex(*A.shape):
            e = A[idx]
            out[idx] = int(e) if isinstance(e, (SV, SB)) else e
        return out

    def tobytes(self, *a, **k):
        return self.realise().tobytes(*a, **k)

    def __bytes__(self):
        return self.tobytes()


def _split(a):
    """-> (int64 array of the concrete entries with 0 at symbolic positions, list of (index, symbolic entry))"""
    if _is_native(a):
        return a.astype(real_np.int64), []
    A = real_np.asarray(a)
    conc = real_np.zeros(A.shape, dtype=real_np.int64)
    sym = []
    for idx in real_np.ndindex(*A.shape):
        e = A[idx]
        if isinstance(e, (SV, SB)):
            sym.append((idx, e if isinstance(e, SV) else core.mk((e.l,))))
        else:
            conc[idx] = int(e)
    return conc, sym


def _matmul(a, b):
    """matrix product with native arithmetic on the concrete parts; only symbolic entries go through Python objects.
    Returns a native int64 array when no symbolic entry is involved."""
    a1 = a.ndim == 1
    b1 = b.ndim == 1
    Ac, As = _split(a)
    Bc, Bs = _split(b)
    fa = _is_native(a) and a.dtype.kind in "fc"
    fb = _is_native(b) and b.dtype.kind in "fc"
    if fa or fb:
        # a genuine float operand (e.g. np.array([()]) is float64): keep NumPy's dtype semantics so that a later
        # bitwise operation fails exactly as it does natively
        if As or Bs:
            raise TypeError("floating point operand combined with symbolic integer entries")
        A_ = a if _is_native(a) else Ac.astype(a._nom if isinstance(a, SymArray) else real_np.int64)
        B_ = b if _is_native(b) else Bc.astype(b._nom if isinstance(b, SymArray) else real_np.int64)
        return real_np.matmul(A_, B_)
    if a1:
        Ac = Ac.reshape(1, -1)
        As = [((0, i[0]), e) for i, e in As]
    if b1:
        Bc = Bc.reshape(-1, 1)
        Bs = [((i[0], 0), e) for i, e in Bs]
    base = Ac @ Bc
    if not As and not Bs:
        res = base
    else:
        res = base.astype(object)
        flat_bs = {}
        for (k, j), e in Bs:
            flat_bs.setdefault(k, []).append((j, e))
        # concrete A x symbolic B
        for k, lst in flat_bs.items():
            rows = real_np.nonzero(Ac[:, k])[0]
            for j, e in lst:
                for i in rows:
                    c = int(Ac[i, k])
                    res[i, j] = res[i, j] + (e if c == 1 else c * e)
        # symbolic A x (concrete + symbolic) B
        if As:
            Bfull = b.astype(object) if _is_native(b) else real_np.asarray(b)
            if b1:
                Bfull = Bfull.reshape(-1, 1)
            for (i, k), e in As:
                for j in range(Bfull.shape[1]):
                    v = Bfull[k, j]
                    if isinstance(v, (SV, SB)) or int(v) != 0:
                        res[i, j] = res[i, j] + e * _py(v)
    if a1 and b1:
        return res[0, 0]
    if a1:
        res = res[0]
    elif b1:
        res = res[:, 0]
    if res.dtype == object:
        return _wrap(res, real_np.int64)
    return res


def _is_native(a):
    return isinstance(a, real_np.ndarray) and not isinstance(a, SymArray) and a.dtype != object


def _cmp(a, o, f):
    A = real_np.asarray(a)
    if isinstance(o, (list, tuple)):
        o = _obj_array(o)
    if isinstance(o, real_np.ndarray):
        B = real_np.asarray(o)
        if B.dtype != object:
            B = real_np.asarray(SymArray(B))
        A2, B2 = real_np.broadcast_arrays(A, B)
    else:
        A2 = A
        B2 = real_np.empty(A.shape, dtype=object)
        B2.fill(_py(o))
    out = real_np.empty(A2.shape, dtype=object)
    for idx in real_np.ndindex(*A2.shape):
        out[idx] = f(_py(A2[idx]), _py(B2[idx]))
    r = out.view(SymArray)
    r._nom = real_np.dtype(bool)
    return r


def _obj_array(x):
    """python nested lists / arrays -> object ndarray with python-int / SV leaves"""
    if isinstance(x, real_np.ndarray):
        if isinstance(x, SymArray) or x.dtype == object:
            return real_np.asarray(x)
        return real_np.asarray(SymArray(x))
    if isinstance(x, (SV, SB)) or not hasattr(x, "__len__"):
        a = real_np.empty((), dtype=object)
        a[()] = _py(x)
        return a
    items = [_obj_array(e) for e in x]
    if not items:
        return real_np.empty((0,), dtype=object)
    shape = items[0].shape
    for it in items:
        if it.shape != shape:
            raise ValueError("inhomogeneous shape")
    a = real_np.empty((len(items),) + shape, dtype=object)
    for i, it in enumerate(items):
        a[i] = it
    return a


def _wrap(a, nominal):
    r = real_np.asarray(a).view(SymArray)
    r._nom = real_np.dtype(nominal)
    return r


def _nominal_of(xs, default=real_np.int8):
    for x in xs:
        if isinstance(x, SymArray):
            return x._nom
        if isinstance(x, real_np.ndarray) and x.dtype != object:
            return x.dtype
    return real_np.dtype(default)


class NPProxy(types.ModuleType):
    """stands in for `np` inside the instrumented modules"""
    ndarray = SymArray

    def __getattr__(self, k):
        return getattr(real_np, k)

    def _filled(self, shape, v, dtype):
        if dtype is not None and real_np.dtype(dtype) == real_np.dtype(bool):
            # Boolean masks handed to third-party code (qiskit's Pauli) stay native; the library never stores
            # symbolic integers in a bool array
            return real_np.full(shape, bool(v), dtype=bool)
        a = real_np.empty(shape, dtype=object)
        a.fill(v)
        return _wrap(a, dtype if dtype is not None else real_np.float64)

    def zeros(self, shape, dtype=None, **kw):
        return self._filled(shape, 0, dtype)

    def ones(self, shape, dtype=None, **kw):
        return self._filled(shape, 1, dtype)

    def empty(self, shape, dtype=None, **kw):
        return self._filled(shape, 0, dtype)

    def eye(self, n, M=None, k=0, dtype=None, **kw):
        return SymArray(real_np.eye(n, M, k, dtype=real_np.int64), dtype if dtype is not None else real_np.float64)

    def identity(self, n, dtype=None, **kw):
        return self.eye(n, dtype=dtype)

    def array(self, obj, dtype=None, **kw):
        if _is_native(obj):
            return real_np.array(obj, dtype=dtype)
        if isinstance(obj, (list, tuple)) and len(obj) > 0:
            try:
                probe = real_np.array(obj)
            except Exception:
                probe = None
            if probe is not None and probe.dtype != object and probe.dtype.kind in "biuf":
                return probe if dtype is None else probe.astype(dtype)
        if isinstance(obj, (list, tuple)) and len(obj) == 0:
            # np.array([]) is a float64 array of shape (0,): keep the native behaviour visible
            return SymArray(real_np.empty((0,), dtype=object), dtype if dtype is not None else real_np.float64)
        nominal = dtype
        if nominal is None:
            flat = [obj] if not isinstance(obj, (list, tuple)) else list(obj)
            nominal = _nominal_of(flat, default=real_np.int64)
            if isinstance(obj, (list, tuple)) and obj and all(isinstance(e, bool) for e in _leaves(obj)):
                nominal = real_np.dtype(bool)
        return SymArray(_obj_array(obj), nominal)

    def asarray(self, obj, dtype=None, **kw):
        if isinstance(obj, SymArray) and dtype is None:
            return obj
        return self.array(obj, dtype=dtype)

    def concatenate(self, arrs, axis=0, **kw):
        if all(_is_native(a) for a in arrs):
            return real_np.concatenate(arrs, axis=axis)
        arrs = [a if isinstance(a, real_np.ndarray) and a.dtype == object and isinstance(a, SymArray) else SymArray(_obj_array(a), _nominal_of([a])) for a in arrs]
        return _wrap(real_np.concatenate([real_np.asarray(a) for a in arrs], axis=axis), _nominal_of(arrs))

    def hstack(self, arrs, **kw):
        if all(_is_native(a) for a in arrs):
            return real_np.hstack(arrs)
        arrs = [SymArray(_obj_array(a), _nominal_of([a])) for a in arrs]
        return _wrap(real_np.hstack([real_np.asarray(a) for a in arrs]), _nominal_of(arrs))

    def vstack(self, arrs, **kw):
        if all(_is_native(a) for a in arrs):
            return real_np.vstack(arrs)
        arrs = [SymArray(_obj_array(a), _nominal_of([a])) for a in arrs]
        return _wrap(real_np.vstack([real_np.asarray(a) for a in arrs]), _nominal_of(arrs))

    def block(self, blocks):
        def conv(b):
            if isinstance(b, list):
                return [conv(e) for e in b]
            return real_np.asarray(SymArray(_obj_array(b), _nominal_of([b])))
        flat = list(_leaves(blocks))
        if all(_is_native(a) for a in flat):
            return real_np.block(blocks)
        return _wrap(real_np.block(conv(blocks)), _nominal_of(flat))

    def any(self, a, axis=None, **kw):
        if not isinstance(a, SymArray):
            a = self.array(a)
        if _is_native(a):
            return real_np.any(a, axis=axis)
        return a.any(axis=axis)

    def all(self, a, axis=None, **kw):
        if not isinstance(a, SymArray):
            a = self.array(a)
        if _is_native(a):
            return real_np.all(a, axis=axis)
        return a.all(axis=axis)

    def sum(self, a, axis=None, **kw):
        if not isinstance(a, SymArray):
            a = self.array(a)
        if _is_native(a):
            return real_np.sum(a, axis=axis)
        return a.sum(axis=axis)

    def array_equal(self, a, b, **kw):
        if _is_native(a) and _is_native(b):
            return bool(real_np.array_equal(a, b))
        a = a if isinstance(a, SymArray) else SymArray(_obj_array(a), _nominal_of([a]))
        b = b if isinstance(b, SymArray) else SymArray(_obj_array(b), _nominal_of([b]))
        if real_np.ndarray.__getattribute__(a, "shape") != real_np.ndarray.__getattribute__(b, "shape"):
            return False
        return (a == b).all()

    def where(self, cond, *rest):
        if rest:
            raise NotImplementedError("three-argument np.where is not used by the library")
        c = cond if isinstance(cond, SymArray) else self.array(cond)
        if _is_native(c):
            return real_np.where(c)
        conc = real_np.empty(c.shape, dtype=bool)
        for idx in real_np.ndindex(*c.shape):
            conc[idx] = bool(real_np.asarray(c)[idx])    # forks (or uniqueness query) per element
        return real_np.where(conc)

    def copy(self, a, **kw):
        return a.copy()


def _leaves(x):
    if isinstance(x, (list, tuple)):
        for e in x:
            yield from _leaves(e)
    else:
        yield x


npx = NPProxy("npx")


def sym_matrix(name, rows, cols, nominal=real_np.int8):
    """rows x cols matrix of fresh symbolic bits named name[r][c]"""
    a = real_np.empty((rows, cols), dtype=object)
    for r in range(rows):
        for c in range(cols):
            a[r, c] = core.symbit("%s_%d_%d" % (name, r, c))
    return _wrap(a, nominal)


def sym_vector(name, n, nominal=real_np.int8):
    a = real_np.empty((n,), dtype=object)
    for r in range(n):
        a[r] = core.symbit("%s_%d" % (name, r))
    return _wrap(a, nominal)


def concretise(arr, env, dtype=real_np.int8):
    """evaluate a SymArray of 0/1 entries under a model"""
    A = real_np.asarray(arr)
    out = real_np.zeros(A.shape, dtype=dtype)
    for idx in real_np.ndindex(*A.shape):
        e = A[idx]
        if isinstance(e, SV):
            v = 0
            for i, b in enumerate(e.bits):
                if core.evaluate(b, env):
                    v |= 1 << i
            out[idx] = v
        elif isinstance(e, SB):
            out[idx] = int(core.evaluate(e.l, env))
        else:
            out[idx] = int(e)
    return out
