"""ztab: independent signed-tableau oracle.  Conjugates a signed Pauli whose x/z/sign bits are literals of
core's Boolean DAG (so: symbolic, or the constants 0/1) through a *concrete* gate list.
Convention (Aaronson-Gottesman): P = (-1)^r * prod_q i^(x_q z_q) X^x_q Z^z_q, i.e. x=z=1 is the Hermitian Y.
Shares no code with the library or with Qiskit; validated against qiskit.quantum_info.Clifford in
validate_against_qiskit()."""
from .core import land, lxor, lnot

ONE_Q = {"id", "i", "x", "y", "z", "h", "s", "sdg"}
TWO_Q = {"cx", "cz", "swap"}
IGNORED = {"barrier", "measure"}


def gates_of(qc, allow_measure=False):
    """(name, [qubit indices]) list of a QuantumCircuit's instructions, read from qc.data"""
    out = []
    for inst in qc.data:
        name = inst.operation.name
        qs = [qc.find_bit(q).index for q in inst.qubits]
        if name in IGNORED:
            if name == "measure" and not allow_measure:
                raise ValueError("unexpected measure")
            continue
        out.append((name, qs))
    return out


def inverse_gates(gates):
    inv = []
    for name, qs in reversed(gates):
        if name == "s":
            name = "sdg"
        elif name == "sdg":
            name = "s"
        inv.append((name, list(qs)))
    return inv


class P:
    """signed Pauli on n qubits with literal-valued bits"""
    __slots__ = ("x", "z", "r")

    def __init__(self, x, z, r=0):
        self.x = list(x)
        self.z = list(z)
        self.r = r

    def copy(self):
        return P(self.x, self.z, self.r)

    @staticmethod
    def zero(n):
        return P([0] * n, [0] * n, 0)

    @staticmethod
    def Z(n, q):
        p = P.zero(n)
        p.z[q] = 1
        return p

    @staticmethod
    def X(n, q):
        p = P.zero(n)
        p.x[q] = 1
        return p


def _apply(p, name, qs):
    x, z = p.x, p.z
    if name in ("id", "i"):
        return
    if name == "h":
        q = qs[0]
        p.r = lxor(p.r, land(x[q], z[q]))
        x[q], z[q] = z[q], x[q]
    elif name == "s":
        q = qs[0]
        p.r = lxor(p.r, land(x[q], z[q]))
        z[q] = lxor(z[q], x[q])
    elif name == "sdg":
        q = qs[0]
        p.r = lxor(p.r, land(x[q], lnot(z[q])))
        z[q] = lxor(z[q], x[q])
    elif name == "x":
        p.r = lxor(p.r, z[qs[0]])
    elif name == "z":
        p.r = lxor(p.r, x[qs[0]])
    elif name == "y":
        p.r = lxor(p.r, lxor(x[qs[0]], z[qs[0]]))
    elif name == "cx":
        c, t = qs
        p.r = lxor(p.r, land(land(x[c], z[t]), lnot(lxor(x[t], z[c]))))
        x[t] = lxor(x[t], x[c])
        z[c] = lxor(z[c], z[t])
    elif name == "cz":
        a, b = qs
        _apply(p, "h", [b])
        _apply(p, "cx", [a, b])
        _apply(p, "h", [b])
    elif name == "swap":
        a, b = qs
        x[a], x[b] = x[b], x[a]
        z[a], z[b] = z[b], z[a]
    else:
        raise ValueError("gate outside the Clifford vocabulary: %r" % name)


def push(p, gates):
    """U P U^dagger for U = gates applied left to right (first gate first)"""
    p = p.copy()
    for name, qs in gates:
        _apply(p, name, qs)
    return p


def pull(p, gates):
    """U^dagger P U"""
    return push(p, inverse_gates(gates))


# ------------------------------------------------------------------ concrete helpers (bits are 0/1 ints)
def label_of(p):
    """qubit-0-first Pauli string with sign, for concrete p"""
    s = "-" if p.r else "+"
    for x, z in zip(p.x, p.z):
        s += "IXZY"[x + 2 * z]
    return s


def from_label(lbl):
    r = 0
    if lbl[0] in "+-":
        r = 1 if lbl[0] == "-" else 0
        lbl = lbl[1:]
    x = [1 if c in "XY" else 0 for c in lbl]
    z = [1 if c in "ZY" else 0 for c in lbl]
    return P(x, z, r)


def validate_against_qiskit(seed=0, trials=300, nmax=5):
    """differential validation of the gate rules against qiskit's Clifford; returns number of comparisons"""
    import random
    from qiskit import QuantumCircuit
    from qiskit.quantum_info import Clifford, Pauli
    rnd = random.Random(seed)
    count = 0
    for t in range(trials):
        n = rnd.randint(1, nmax)
        qc = QuantumCircuit(n)
        for _ in range(rnd.randint(0, 14)):
            g = rnd.choice(["id", "x", "y", "z", "h", "s", "sdg", "cx", "cz", "swap"])
            if g in TWO_Q:
                if n < 2:
                    continue
                a, b = rnd.sample(range(n), 2)
                getattr(qc, g)(a, b)
            else:
                getattr(qc, g)(rnd.randrange(n))
        lbl = rnd.choice("+-") + "".join(rnd.choice("IXYZ") for _ in range(n))
        p = from_label(lbl)
        mine_push = label_of(push(p, gates_of(qc)))
        mine_pull = label_of(pull(p, gates_of(qc)))
        qp = Pauli(lbl[0] + lbl[1:][::-1])
        # qiskit: evolve(frame="s") = U P U^dagger ; frame="h" = U^dagger P U
        for mine, frame in ((mine_push, "s"), (mine_pull, "h")):
            e = qp.evolve(Clifford(qc), frame=frame)
            ql = e.to_label()
            sign = "-" if ql.startswith("-") else "+"
            body = ql.lstrip("+-")[::-1]
            if sign + body != mine:
                raise AssertionError("ztab disagrees with qiskit on %s through %s (%s): %s vs %s" %
                                     (lbl, gates_of(qc), frame, mine, sign + body))
            count += 1
    return count
