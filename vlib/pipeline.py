"""Shared exploration of the circuit pipeline (determine_lc_class -> table lookup -> find_local_clifford_layer ->
local_clifford_layer_to_circuit -> compose -> H-H cancellation -> sign repair / inverse) on symbolic stabilizers.
Families (DESIGN.md §3):
  F3: n in {2,3}: tableau and signs fully symbolic, assumption = independent validity spec.
  Fc: n in {4,5,6}: L|G_c> for a class graph, layer symbolic on a window of qubits (others seeded), optional seeded
      basis change, signs symbolic (all 2^n or a seeded affine family).
Every leaf carries the obligations of C01/C02/C03/C04; the caller selects which are stated."""
import itertools, random
import numpy as np
from . import core, symnp, loader, spec, lcq, ztab, tables, circmetrics, coupling_spec
from .core import Ctx, explore, var, land, lxor, lor, lor_all, land_all, lxor_all, leq, mk, evaluate
from .coupling_spec import NCLASSES

RESET_MODULES = ("stabilizer_circuits", "stabilizer", "lc_classes", "find_local_clifford_layer", "f2_algebra",
                 "rotate_stabilizer_into_state", "graph", "linear_index", "connectivity_support")
EXC = (AssertionError, RuntimeError, ValueError, IndexError, KeyError, TypeError, AttributeError, ZeroDivisionError, NotImplementedError)


def sign_family(n, mode, rnd):
    """-> (sign literals, assumptions).  mode 'all': n free bits; ('affine', k): s0 + span(k seeded vectors)"""
    if mode == "all":
        return [var("sg%d" % j) for j in range(n)], []
    k = mode[1]
    s0 = [rnd.randrange(2) for _ in range(n)]
    vecs = []
    while len(vecs) < k:
        v = [rnd.randrange(2) for _ in range(n)]
        if any(v):
            vecs.append(v)
    coef = [var("sc%d" % i) for i in range(k)]
    lits = [lxor_all([s0[j]] + [coef[i] for i in range(k) if vecs[i][j]]) for j in range(n)]
    return lits, []


def build_input(job, ctx):
    """-> dict(X, Z, signs, oracle_cls or None)"""
    n = job["n"]
    rnd = random.Random(job.get("seed", 0))
    if job["family"] == "F3":
        X, Z = spec.sym_tableau(n)
        ctx.assume(spec.valid(X, Z))
        for name, val in job.get("preset", ()):
            ctx.assume(var(name) if val else var(name) ^ 1)
        signs, _ = sign_family(n, job.get("signs", "all"), rnd)
        return dict(X=X, Z=Z, signs=signs, oracle_cls=None)
    adj = job["adj"]
    base = job["base_layer"]
    L = []
    for q in range(n):
        if q in job["window"]:
            a, b, c, d = [var("l%d%s" % (q, k)) for k in "abcd"]
            ctx.assume(lxor(land(a, d), land(b, c)))
            L.append((a, b, c, d))
        else:
            L.append(spec.SIX[base[q]])
    X, Z = spec.layered_graph_tableau(adj, L)
    if job.get("B") is not None:
        X, Z = spec.change_basis(X, Z, job["B"])
    signs, _ = sign_family(n, job.get("signs", "all"), rnd)
    return dict(X=X, Z=Z, signs=signs, oracle_cls=job["cls"])


def _sign_array(signs):
    a = np.empty((len(signs),), dtype=object)
    for j, l in enumerate(signs):
        a[j] = mk((l,))
    return symnp._wrap(a, np.int8)


def _brute_class(n, R, S):
    """independent oracle for n<=3: id whose representative graph is LC-equivalent (brute force over 6^n layers)"""
    from .props.c06 import _lc_equiv_bruteforce
    for c in range(NCLASSES[n]):
        if _lc_equiv_bruteforce(R, S, tables.rep_graph(n, c)):
            return c
    return None


def leaf(job, api, want):
    """one path: run the instrumented API, state the obligations in `want` (subset of C01,C02,C03,C04)"""
    ctx = Ctx.cur
    n, conn = job["n"], job["conn"]
    sc = loader.sym("stabilizer_circuits")
    st = loader.sym("stabilizer")
    for m in RESET_MODULES:       # no state may leak from one explored path into the next (lookup caches excepted: C13)
        loader.reset_state(m)
    inp = build_input(job, ctx)
    X, Z, signs = inp["X"], inp["Z"], inp["signs"]
    R, S = spec.to_symarrays(X, Z)
    poison = (api == "readout")
    stab = spec.make_stabilizer(st, R, S, phases=None if poison else _sign_array(signs), poison_phases=poison)
    info = {"api": api}
    try:
        qc = sc.get_preparation_circuit(stab, conn) if api == "prep" else sc.get_readout_circuit(stab, conn)
    except spec.PhasesTouched as e:
        ctx.prove("readout circuit must not depend on the signs of the generators", 0, info=dict(exc=repr(e)))
        return info
    except EXC as e:
        ctx.prove("valid stabilizer must be served, not rejected (%s: %s)" % (type(e).__name__, str(e)[:80]), 0, info=dict(exc=repr(e)))
        info["exception"] = type(e).__name__
        return info
    gates = ztab.gates_of(qc)
    info["models"] = ctx.model_count()
    info["gates"] = len(gates)
    # translator validation on a sample of leaves: the NATIVE library (machine integers, real NumPy) on a model of the
    # path must return the same gate list as the instrumented copy
    if (hash(tuple((g, tuple(q)) for g, q in gates)) % 6) == 0 or job.get("validate_all"):
        env = ctx.model_env()
        Rm, Sm = spec.env_tableau(X, Z, env)
        pm = [int(evaluate(l, env)) for l in signs]
        try:
            ns = loader.native("stabilizer").Stabilizer((np.array(Rm, dtype=np.int8), np.array(Sm, dtype=np.int8), np.array(pm, dtype=np.int8)))
            nsc = loader.native("stabilizer_circuits")
            nqc = nsc.get_preparation_circuit(ns, conn) if api == "prep" else nsc.get_readout_circuit(ns, conn)
            same = ztab.gates_of(nqc) == gates
        except EXC as e:
            same = False
        # only meaningful when the path pins the input (prep) or for the chosen model (readout): compare on the model
        fixed = land_all([leq(X[q][g], Rm[q][g]) for q in range(n) for g in range(n)] + [leq(Z[q][g], Sm[q][g]) for q in range(n) for g in range(n)])
        ctx.prove("native library and instrumented copy agree on a model of this path (translator validation)", lor(fixed ^ 1, 1 if same else 0), info=dict(tv=True))
        info["tv"] = 1
    info["sig"] = hash(tuple((g, tuple(q)) for g, q in gates)) & 0xFFFFFFFF
    if qc.num_qubits != n:
        ctx.prove("returned circuit has %d qubits, expected %d" % (qc.num_qubits, n), 0)
        return info
    bad_arity = [g for g in gates if len(g[1]) > 2]
    # ---------------- C01 / C03: action of the circuit on the group
    if "C01" in want and api == "prep":
        obs = []
        for j in range(n):
            p = ztab.P([X[q][j] for q in range(n)], [Z[q][j] for q in range(n)], signs[j])
            back = ztab.pull(p, gates)
            obs.append(land(lor_all(back.x) ^ 1, back.r ^ 1))
        ctx.prove("every given signed generator is pulled back to +Z-type (the circuit prepares exactly the requested state)", land_all(obs))
        if job.get("resign"):
            # history step: the caller flips the signs of the SAME object in place and asks again
            ph = np.asarray(stab.phases)
            for j in range(n):
                ph[j] = mk((signs[j] ^ 1,))
            try:
                qc2 = sc.get_preparation_circuit(stab, conn)
                g2 = ztab.gates_of(qc2)
                obs = []
                for j in range(n):
                    p = ztab.P([X[q][j] for q in range(n)], [Z[q][j] for q in range(n)], signs[j] ^ 1)
                    back = ztab.pull(p, g2)
                    obs.append(land(lor_all(back.x) ^ 1, back.r ^ 1))
                ctx.prove("after flipping all signs of the same object in place, a second call prepares the re-signed state", land_all(obs), info=dict(resign=True))
            except EXC as e:
                ctx.prove("second call after in-place sign flip raised %s" % type(e).__name__, 0, info=dict(resign=True))
    if "C03" in want and api == "readout":
        a = [var("ca%d" % j) for j in range(n)]
        x = [lxor_all([land(a[j], X[q][j]) for j in range(n)]) for q in range(n)]
        z = [lxor_all([land(a[j], Z[q][j]) for j in range(n)]) for q in range(n)]
        fwd = ztab.push(ztab.P(x, z, 0), gates)
        ctx.prove("every group element (symbolic coefficient vector) is mapped to a Z-type operator by the readout circuit", lor_all(fwd.x) ^ 1)
    # ---------------- C02 / C04: skeleton and metrics against the table entry of the oracle class
    if "C02" in want or "C04" in want:
        cls = inp["oracle_cls"]
        if cls is None:
            env = ctx.model_env()
            Rm, Sm = spec.env_tableau(X, Z, env)
            fixed = land_all([leq(X[q][g], Rm[q][g]) for q in range(n) for g in range(n)] + [leq(Z[q][g], Sm[q][g]) for q in range(n) for g in range(n)])
            if api == "prep" or ctx.check(core.toz3(fixed ^ 1)) == "unsat":
                cls = _brute_class(n, Rm, Sm)
            else:
                # the path still covers several tableaux (readout): they share the class decided by the real classifier,
                # whose agreement with the oracle is C06's obligation; use the oracle class of the model tableau and
                # require the classifier's path to be class-pure via C06-F3
                cls = _brute_class(n, Rm, Sm)
        ent = tables.entries(n, conn)[cls]
        tg = ent["gates"] if api == "prep" else ztab.inverse_gates(ent["gates"])
        info["cls"] = cls
        if "C02" in want:
            es = coupling_spec.edge_set(n, conn)
            off = [g for g in gates if len(g[1]) == 2 and (min(g[1]), max(g[1])) not in es]
            ctx.prove("no gate on more than two qubits", 0 if bad_arity else 1)
            ctx.prove("every two-qubit gate acts on a coupled pair of %d-%s (offending: %s)" % (n, conn, off[:2]), 0 if off else 1)
            ctx.prove("composition neither adds nor moves a two-qubit gate (skeleton equals the table entry's)",
                      1 if circmetrics.skeleton_canon(gates, n) == circmetrics.skeleton_canon(tg, n) else 0)
        if "C04" in want:
            c, d = circmetrics.two_qubit_count(gates), circmetrics.two_qubit_depth(gates, n)
            ctx.prove("two-qubit count %d / depth %d equal the metadata %d / %d of the class (id %d)" % (c, d, ent["cost"], ent["depth"], cls),
                      1 if (c, d) == (ent["cost"], ent["depth"]) else 0)
            info["cost"] = c
    return info


def concretise_case(job, env):
    """solver model -> concrete replay input (R, S, phases as lists)"""
    class _C:
        def assume(self, l):
            pass
    inp = build_input(job, _C())
    n = job["n"]
    R, S = spec.env_tableau(inp["X"], inp["Z"], env)
    ph = [int(evaluate(l, env)) for l in inp["signs"]]
    return dict(n=n, conn=job["conn"], R=R, S=S, phases=ph, family=job["family"], cls=job.get("cls"))


def job_variables(job):
    """names of the symbolic input variables of a job (for the truth-table decision engine)"""
    n = job["n"]
    names = []
    if job["family"] == "F3":
        names += ["tx%d_%d" % (q, g) for q in range(n) for g in range(n)] + ["tz%d_%d" % (q, g) for q in range(n) for g in range(n)]
    else:
        names += ["l%d%s" % (q, k) for q in job["window"] for k in "abcd"]
    sg = job.get("signs", "all")
    names += ["sg%d" % j for j in range(n)] if sg == "all" else ["sc%d" % i for i in range(sg[1])]
    return names


def run_job(arg):
    """worker entry: (job, api, want, mode) -> json"""
    job, api, want, mode = arg
    for m in ("stabilizer_circuits", "stabilizer", "lc_classes", "circuit_lookup", "find_local_clifford_layer", "f2_algebra", "rotate_stabilizer_into_state"):
        loader.sym(m)
    names = job_variables(job)
    if len(names) <= core.TT_MAX:
        core.tt_setup(names)
    else:
        core.tt_disable()
    expected_models = None
    if len(names) <= core.TT_MAX:
        def root():
            build_input(job, Ctx.cur)
            return {"models": Ctx.cur.model_count()}
        expected_models = explore(root).leaves[0]["models"]
    res = explore(lambda: leaf(job, api, want), mode=mode)
    if expected_models is not None:
        got = sum(l.get("models") or 0 for l in res.leaves)
        if api == "readout":
            pass   # sign variables are never constrained on readout paths; counts still partition the space
        if got != expected_models and not res.violations and not res.errors:
            res.errors.append("leaf path conditions do not partition the input space: %d models in leaves, %d assumed" % (got, expected_models))
    cands = []
    for v in res.violations[:5]:
        c = concretise_case(job, v["model"])
        c["label"] = v["label"]
        if (v.get("info") or {}).get("resign"):
            c["resign"] = True
        c["api"] = api
        cands.append(c)
    nviol = len(res.violations)
    res.violations = []
    sigs = sorted(set(l.get("sig", 0) for l in res.leaves))
    costs = sorted(set(l.get("cost") for l in res.leaves if l.get("cost") is not None))
    sample = res.leaves[:1]
    tv = sum(1 for l in res.leaves if l.get("tv"))
    res.leaves = []
    return dict(res=res.to_json(), tt=res.tt_decisions, tv=tv, cands=cands, nviol=nviol, sigs=sigs[:2000], nsigs=len(sigs), costs=costs, sample=sample)


# ------------------------------------------------------------------------------------------------ job lists
def f3_jobs(tier, seed, signs="all"):
    jobs = []
    for (n, conn) in coupling_spec.ADVERTISED:
        if n == 2:
            jobs.append(dict(family="F3", n=2, conn=conn, signs=signs, seed=seed, resign=True))
        elif n == 3:
            names = ["tx0_0", "tz0_0", "tx1_0", "tz1_0", "tx2_0", "tz2_0", "tx0_1", "tz0_1", "tx1_1", "tz1_1"]
            p = 6 if tier == "thorough" else 9
            combos = list(itertools.product([0, 1], repeat=p))
            if tier == "quick":
                rnd = random.Random(seed * 31 + len(conn))
                combos = rnd.sample(combos, 10)
            for bits in combos:
                jobs.append(dict(family="F3", n=3, conn=conn, signs=signs, seed=seed, preset=tuple(zip(names[:p], bits))))
    return jobs


def fc_jobs(tier, seed, signs_quick=("affine", 2), signs_thorough=("affine", 2), api="prep"):
    """per class representative families for n = 4,5,6"""
    rnd = random.Random(seed)
    jobs = []
    for (n, conn) in coupling_spec.ADVERTISED:
        if n < 4:
            continue
        K = NCLASSES[n]
        if tier == "quick":
            classes = list(range(K)) if n < 5 else (_structure_reps(n) + rnd.sample(range(K), 24 if n == 5 else 14))
        else:
            classes = list(range(K)) if n < 6 else _structure_reps(6) + rnd.sample(range(K), 150)
        for cls in sorted(set(classes)):
            ent_adj = tables.entries(n, conn)[cls]["adj"]
            rep = tables.rep_graph(n, cls)
            variants = [rep]
            if ent_adj != rep and tier == "thorough":
                variants.append(ent_adj)
            for adj in variants:
                r2 = random.Random(seed * 1000003 + cls * 97 + n * 7 + len(conn))
                base = [r2.randrange(6) for _ in range(n)]
                if n == 4:
                    wsize = 2 if tier == "quick" else 3
                elif n == 5:
                    wsize = 1 if tier == "quick" else 2
                else:
                    wsize = 1
                window = sorted(r2.sample(range(n), wsize))
                B = spec.random_invertible(n, r2) if r2.random() < 0.5 else None
                jobs.append(dict(family="Fc", n=n, conn=conn, cls=cls, adj=adj, base_layer=base, window=window, B=B, resign=(r2.random() < 0.25),
                                 signs=signs_quick if tier == "quick" else signs_thorough, seed=seed * 13 + cls))
    return jobs


def fc0_jobs(tier, seed, signs=("affine", 1)):
    """every class of every configuration once: table graph, seeded concrete layer (thorough: one symbolic qubit),
    seeded basis change - so that every table line goes through composition / cancellation / sign repair"""
    jobs = []
    for (n, conn) in coupling_spec.ADVERTISED:
        for cls in range(NCLASSES[n]):
            r2 = random.Random(seed * 7919 + cls * 131 + n * 17 + len(conn))
            adj = tables.entries(n, conn)[cls]["adj"]
            base = [r2.randrange(6) for _ in range(n)]
            window = [r2.randrange(n)] if (tier == "thorough" and n <= 5) else []
            u = r2.random()
            if u < 0.34:
                B = None
            elif u < 0.67:
                B = spec.random_invertible(n, r2)
            else:
                perm = list(range(n))            # generator ORDER matters to the sign synthesis: a random permutation
                r2.shuffle(perm)
                B = [[1 if perm[h] == g else 0 for h in range(n)] for g in range(n)]
            jobs.append(dict(family="Fc", n=n, conn=conn, cls=cls, adj=adj, base_layer=base, window=window, B=B, resign=False,
                             signs=signs, seed=seed * 13 + cls))
    return jobs


def _structure_reps(n):
    cls = tables.class_of(n)
    return [cls._start_indices[i] for i in range(len(cls._start_indices) - 1)]
