import argparse, importlib, os, sys, warnings

os.environ.setdefault("RAYON_NUM_THREADS", "1")
os.environ.setdefault("OMP_NUM_THREADS", "1")
os.environ.setdefault("OPENBLAS_NUM_THREADS", "1")
os.environ.setdefault("QISKIT_PARALLEL", "FALSE")
warnings.filterwarnings("ignore")


def main():
    ap = argparse.ArgumentParser()
    ap.add_argument("pid")
    ap.add_argument("--tier", default=os.environ.get("VERIF_TIER", "quick"), choices=["quick", "thorough"])
    ap.add_argument("--replay", default=None)
    a = ap.parse_args()
    seed = int(os.environ.get("VERIF_SEED", "0"))
    from . import harness
    if a.replay:
        ok, detail = harness.run_replay(a.replay)
        print(("REPRODUCED " if ok else "NOT-REPRODUCED " if ok is False else "REPLAY-ERROR ") + detail)
        sys.exit(1 if ok else 0 if ok is False else 3)
    pid = a.pid.upper()
    mod = importlib.import_module("vlib.props.%s" % pid.lower())
    try:
        code = mod.run(a.tier, seed)
    except SystemExit:
        raise
    except BaseException as e:
        import traceback
        print("HARNESS-ERROR property=%s uncaught %r\n%s" % (pid, e, traceback.format_exc()[-4000:]), flush=True)
        code = harness.EXIT_HARNESS
    sys.stdout.flush()
    sys.exit(code)


if __name__ == "__main__":
    main()
