"""C17 - every lookup-table entry is internally consistent.
Outer loop: the shipped data (finite).  Solver-quantified per entry: (state) for ALL 2^n group elements of the
entry's graph state, the pull-back through the entry's gate list is Z-type (one unsat query with a symbolic
coefficient vector); (class) an LC-equivalence certificate (exists-layer query, model re-verified) between the
entry's graph and the library's representative graph of the id.  The rest is a finite check of a shipped list."""
import re
from .. import harness, loader, tables, ztab, lcq, circmetrics, coupling_spec
from ..core import var, land, lxor, lor_all, lxor_all
from ..coupling_spec import NCLASSES, ADVERTISED

PID = "C17"


def _check_file(job):
    n, conn, fn = job
    q = lcq.Q()
    out = dict(file=fn, n=n, conn=conn, entries=0, problems=[], obligations=0, discharged=0, samples=[])
    K = NCLASSES.get(n)
    raw = [l for l in tables.raw_lines(fn) if len(l) != 0]
    if K is None or len(raw) != K:
        out["problems"].append(dict(kind="line-count", key="%s line-count=%d expected=%s" % (fn, len(raw), K), id=-1))
    ents = tables.entries(n, conn)
    out["obligations"] += 1
    if len(ents) == len(raw):
        out["discharged"] += 1
    else:
        out["problems"].append(dict(kind="line-count", key="%s parsed=%d raw=%d" % (fn, len(ents), len(raw)), id=-1))
    advertised = (n, conn) in ADVERTISED
    cgraph = coupling_spec.edge_set(n, conn if advertised else "all")
    lc = loader.native("lc_classes")
    st = loader.native("stabilizer")
    gr = loader.native("graph")
    import numpy as np
    for e, rawline in zip(ents, raw):
        cid = e["id"]
        out["entries"] += 1

        def bad(kind, what):
            out["problems"].append(dict(kind=kind, id=cid, key="%s id=%d %s" % (fn, cid, kind), what=what))
        # ---- vocabulary (raw text, independent of the parser)
        comps = rawline.split(":")
        out["obligations"] += 1
        toks, errs = tables.tokenize(comps[3] if len(comps) == 4 else "")
        ok = len(comps) == 4 and not errs
        for name, qs in toks:
            if any(qb >= n for qb in qs) or (len(qs) == 2 and qs[0] == qs[1]):
                ok = False
        if ok and [(g, list(qs)) for g, qs in toks] != [(g, list(qs)) for g, qs in e["gates"]]:
            ok = False
            errs.append("parser output differs from independent tokenizer")
        if ok and e["nq"] != n:
            ok = False
        if ok:
            out["discharged"] += 1
        else:
            bad("vocabulary", "tokens=%r errs=%r" % (toks[:6], errs[:3]))
            continue
        # ---- graph decoding agrees with the documented bit layout
        out["obligations"] += 1
        if tables.adj_of_id(n, e["graph_id"]) == e["adj"]:
            out["discharged"] += 1
        else:
            bad("graph-codec", "Graph.decompress(%d,%d) differs from documented layout" % (n, e["graph_id"]))
        # ---- state: for all coefficient vectors a, pull-back of sum_v a_v X_v Z_N(v) has no X part
        adj = e["adj"]
        a = [var("a%d" % v) for v in range(n)]
        x = list(a)
        z = [lxor_all([a[v] for v in range(n) if adj[i][v]]) for i in range(n)]
        back = ztab.pull(ztab.P(x, z, 0), e["gates"])
        out["obligations"] += 1
        r, env = q.check([lor_all(back.x)], want_model=True)
        if r == "unsat":
            out["discharged"] += 1
        elif r == "sat":
            bad("state", "group element a=%s of graph %d is not mapped to a Z-type operator by the entry circuit" %
                ([int(env.get("a%d" % v, False)) for v in range(n)], e["graph_id"]))
        else:
            out["problems"].append(dict(kind="unknown", id=cid, key="unknown", what="solver unknown on state query"))
        # reachability twin of the state query (must be sat: some element has non-trivial Z part)
        if cid == 1:
            r2, _ = q.check([lor_all(back.z)])
            out["twin_state_reachable"] = (r2 == "sat")
        # ---- class: LC certificate entry graph ~ representative graph of the id, classifier agrees
        if K is not None and cid < K:
            rep = tables.rep_graph(n, cid)
            out["obligations"] += 1
            r, layer = lcq.lc_equivalent(q, adj, rep)
            if r == "sat":
                out["discharged"] += 1
                if len(out["samples"]) < 2 and cid > 0:
                    out["samples"].append(dict(file=fn, id=cid, graph_id=e["graph_id"], certificate_layer=layer,
                                               gates=len(e["gates"]), cost=e["cost"], depth=e["depth"]))
            elif r == "unsat":
                bad("class", "graph %d is not LC-equivalent to the representative of class %d" % (e["graph_id"], cid))
            else:
                out["problems"].append(dict(kind="unknown", id=cid, key="unknown", what="solver unknown on class query"))
            out["obligations"] += 1
            got = lc.determine_lc_class(st.Stabilizer(gr.Graph(np.array(adj, dtype=np.int8)))).id()
            if got == cid:
                out["discharged"] += 1
            else:
                bad("classifier", "native classifier files graph %d under %d" % (e["graph_id"], got))
        # ---- metadata
        out["obligations"] += 1
        c = circmetrics.two_qubit_count(e["gates"])
        d = circmetrics.two_qubit_depth(e["gates"], n)
        if (c, d) == (e["cost"], e["depth"]):
            out["discharged"] += 1
        else:
            bad("metadata", "recorded cost/depth %d/%d, actual %d/%d" % (e["cost"], e["depth"], c, d))
        # ---- connectivity (C02 part 2)
        out["obligations"] += 1
        off = [(g, qs) for g, qs in e["gates"] if len(qs) == 2 and (min(qs), max(qs)) not in cgraph]
        if not off:
            out["discharged"] += 1
        else:
            bad("connectivity", "two-qubit gate %r outside coupling graph of %s" % (off[0], conn))
    out["q"] = dict(n=q.n, t=q.t, verdicts=q.verdicts)
    return out


def run(tier, seed):
    ck = harness.Check(PID, tier, seed)
    ck.encode("circuit_lookup.stabilizer_circuit_lookup", "circuit_lookup.StabilizerCircuitInfo", "circuit_lookup.parse_circuit",
              "graph.Graph.decompress", "lc_classes.LCClassN.get_graph", "lc_classes.determine_lc_class")
    ck.bounds += ["all stabilizer*-*.txt files in the data directory, all entries (both tiers)",
                  "state sub-claim: all 2^n group elements per entry by one query (symbolic coefficient vector)",
                  "class sub-claim: exists-layer certificate over all 6^n layers, model re-verified in plain Python"]
    ck.outside += ["signs of the prepared graph state (the property says 'up to signs')"]
    ck.assumptions += ["ztab gate rules (validated differentially against qiskit Clifford on this run)"]
    ck.validated += ztab.validate_against_qiskit(seed=seed, trials=200)
    files = tables.stabilizer_files()
    adv = set(ADVERTISED)
    present = set((n, c) for n, c, _ in files)
    for pair in ADVERTISED:
        ck.obligations += 1
        if pair in present:
            ck.discharged += 1
        else:
            ck.candidate("missing-table %d-%s" % pair, dict(kind="missing-table", n=pair[0], conn=pair[1]), "no stabilizer table for advertised configuration %r" % (pair,))
    twin_seen = False
    for job, res in harness.pmap(_check_file, files):
        ck.count("file:" + res["file"], n_queries=res["q"]["n"], solver_s=res["q"]["t"], obligations=res["obligations"],
                 discharged=res["discharged"], verdicts=res["q"]["verdicts"], paths=res["entries"],
                 sig=["%s:%d" % (res["file"], i) for i in range(res["entries"])])
        for s in res["samples"]:
            ck.sample("entry", s)
        if res.get("twin_state_reachable") is not None:
            twin_seen = twin_seen or res["twin_state_reachable"]
        for p in res["problems"]:
            if p["kind"] == "unknown":
                ck.harness_error("%s id=%s: %s" % (res["file"], p["id"], p["what"]))
                continue
            ck.candidate(p["key"], dict(kind=p["kind"], n=res["n"], conn=res["conn"], file=res["file"], id=p["id"]),
                         "%s entry %s: %s" % (res["file"], p["id"], p.get("what", p["kind"])))
    ck.vacuity_twin("state-query (Z part of the pulled-back element is not identically zero)", twin_seen)
    ck.exhaustive = True
    hist = tables.history_check()
    ck.obligations += 1
    if not hist:
        ck.discharged += 1
    for h in hist[:5]:
        ck.candidate("history %d %s->%s id=%d" % (h["n"], h["first"], h["second"], h["id"]), dict(kind="history", **h), h["what"])
    return ck.finish()


# ------------------------------------------------------------------------------------------------ replay
def replay(case):
    if case.get("kind") == "history":
        return tables.replay_history(case)
    """native re-check of one entry with plain-Python oracles (dense simulation, LC-orbit BFS)"""
    import numpy as np
    from .. import dense
    from htstabilizer import circuit_lookup, lc_classes
    from htstabilizer.graph import Graph
    n, conn, cid, kind = case["n"], case["conn"], case["id"], case["kind"]
    fn = "stabilizer%d-%s.txt" % (n, conn)
    if kind == "missing-table":
        try:
            circuit_lookup.stabilizer_circuit_lookup(n, conn, 0)
            return False, "table present"
        except Exception as e:
            return True, "lookup fails: %r" % e
    raw = [l for l in tables.raw_lines(fn) if l]
    if kind == "line-count":
        K = NCLASSES.get(n)
        return (len(raw) != K), "%s has %d non-empty lines, expected %s" % (fn, len(raw), K)
    info = circuit_lookup.stabilizer_circuit_lookup(n, conn, cid)
    if kind == "vocabulary":
        toks, errs = tables.tokenize(raw[cid].split(":")[3] if raw[cid].count(":") == 3 else "")
        try:
            g = dense.gates_of(info.parse_circuit())
        except Exception as e:
            return True, "parser raised %r" % e
        okv = not errs and all(q < n for _, qs in toks for q in qs) and all(len(set(qs)) == len(qs) for _, qs in toks) \
            and [(a, list(b)) for a, b in toks] == [(a, list(b)) for a, b in g]
        return (not okv), "tokens %r errs %r" % (toks[:5], errs[:3])
    qc = info.parse_circuit()
    gates = dense.gates_of(qc)
    adj = Graph.decompress(n, info.graph_id).adjacency_matrix
    if kind == "graph-codec":
        return ([[int(v) for v in r] for r in adj] != tables.adj_of_id(n, info.graph_id)), "decoder mismatch"
    if kind == "state":
        psi = dense.run(n, gates)
        for v in range(n):
            lab = "".join("X" if i == v else ("Z" if adj[i][v] else "I") for i in range(n))
            ex = dense.expectation(psi, n, lab)
            if abs(abs(ex) - 1) > 1e-9:
                return True, "<%s> = %.3f on the state prepared by entry %d of %s" % (lab, ex, cid, fn)
        return False, "all graph generators have expectation +-1"
    if kind in ("class", "classifier"):
        rep = lc_classes.__dict__["LCClass%d" % n](cid).get_graph().adjacency_matrix
        target = tuple(map(tuple, rep.tolist()))
        start = tuple(map(tuple, (np.array(adj) & 1).tolist()))
        seen = {start}
        todo = [start]
        while todo:
            g = todo.pop()
            for v in range(n):
                nb = [i for i in range(n) if g[v][i]]
                h = [list(r) for r in g]
                for i in nb:
                    for j in nb:
                        if i != j:
                            h[i][j] ^= 1
                t = tuple(map(tuple, h))
                if t not in seen:
                    seen.add(t)
                    todo.append(t)
        if kind == "class":
            return (target not in seen), "LC orbit of graph %d has %d members; representative of class %d %s" % (
                info.graph_id, len(seen), cid, "found" if target in seen else "NOT found")
        from htstabilizer.stabilizer import Stabilizer
        got = lc_classes.determine_lc_class(Stabilizer(Graph(np.array(adj, dtype=np.int8)))).id()
        return (got != cid), "classifier says %d" % got
    if kind == "metadata":
        c = circmetrics.two_qubit_count(gates)
        d = circmetrics.two_qubit_depth(gates, n)
        return ((c, d) != (info.cost, info.depth)), "recorded %d/%d actual %d/%d" % (info.cost, info.depth, c, d)
    if kind == "connectivity":
        es = coupling_spec.edge_set(n, conn if (n, conn) in ADVERTISED else "all")
        off = [(g, qs) for g, qs in gates if len(qs) == 2 and (min(qs), max(qs)) not in es]
        return (bool(off)), "off-graph gates %r" % off[:3]
    return False, "unknown kind"
