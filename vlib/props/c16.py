"""C16 - the local-Clifford layer search is sound and complete; emitted gates implement the layer."""
import itertools, random
import numpy as np
from .. import harness, loader, core, symnp, spec, lcq, ztab, tables, pipeline
from ..core import Ctx, explore, var, land, lxor, lor, lor_all, land_all, lxor_all, leq, mk, evaluate, SV, SB
from ..coupling_spec import NCLASSES, ADVERTISED

PID = "C16"


def _lit(e):
    if isinstance(e, SV):
        return e.bits[0] if len(e.bits) == 1 else None
    if isinstance(e, SB):
        return e.l
    e = int(e)
    return e if e in (0, 1) else None


def _graph_obj(adj):
    gr = loader.sym("graph")
    return gr.Graph(symnp.SymArray(np.array(adj, dtype=np.int64), np.int8))


def _equation(adj, blocks, X, Z):
    """literals of  Gamma (Axx R + Axz S) + Azx R + Azz S == 0  for per-qubit blocks (a,b,c,d) (literals)"""
    X2, Z2 = lcq.apply_layer(blocks, X, Z)
    return lcq.in_graph_group(adj, X2, Z2)


def search_obligations(ctx, n, m, X, Z, adj, tag=""):
    """run the real search on (X,Z) [n x m literal matrices] against graph adj and state soundness/completeness"""
    fl = loader.sym("find_local_clifford_layer")
    R, S = spec.to_symarrays(X, Z)
    info = {}
    try:
        A = fl.find_local_clifford_layer(R, S, _graph_obj(adj))
    except pipeline.EXC as e:
        ctx.prove(tag + "search must return a layer or None, not raise %s (%s)" % (type(e).__name__, str(e)[:50]), 0)
        info["exception"] = type(e).__name__
        return info
    if A is None:
        info["result"] = "none"
        # completeness: no layer of genuine single-qubit Cliffords exists for ANY input on this path
        M, mc = lcq.layer_vars(n, "m")
        goal = _equation(adj, M, X, Z)
        exists = land_all(mc + goal)
        ctx.prove(tag + "search reports absence only if no local-Clifford layer exists (exists-layer query over 6^n layers)", exists ^ 1)
        return info
    info["result"] = "layer"
    ok = isinstance(A, (list, tuple)) and len(A) == 4 and all(np.asarray(a).shape == (n, n) for a in A)
    if not ok:
        ctx.prove(tag + "returned layer is malformed", 0)
        return info
    Al = [[[_lit(np.asarray(A[k])[i, j]) for j in range(n)] for i in range(n)] for k in range(4)]
    if any(v is None for k in range(4) for row in Al[k] for v in row):
        ctx.prove(tag + "returned layer has non-binary entries", 0)
        return info
    offdiag = land_all([Al[k][i][j] ^ 1 for k in range(4) for i in range(n) for j in range(n) if i != j])
    blocks = [(Al[0][q][q], Al[1][q][q], Al[2][q][q], Al[3][q][q]) for q in range(n)]
    genuine = land_all([lxor(land(a, d), land(b, c)) for (a, b, c, d) in blocks])
    ctx.prove(tag + "returned layer is block diagonal and every block is a genuine single-qubit Clifford (invertible 2x2)", land(offdiag, genuine))
    ctx.prove(tag + "returned layer maps every operator into the graph state's stabilizer group", land_all(_equation(adj, blocks, X, Z)))
    # check_LC agrees with the independent formula on the returned layer
    try:
        chk = fl.check_LC(R, S, _graph_obj(adj), A)
        cl = core.litof(chk) if not isinstance(chk, bool) else int(chk)
        ctx.prove(tag + "check_LC agrees with the independent formula", leq(cl, land_all(_equation(adj, blocks, X, Z))))
    except pipeline.EXC as e:
        ctx.prove(tag + "check_LC raised %s" % type(e).__name__, 0)
    info["layer"] = [[b if b in (0, 1) else "sym" for b in blk] for blk in blocks]
    return info


def _small_job(job):
    """n<=3: operators fully symbolic and unconstrained (also non-commuting / dependent sets), one concrete graph"""
    n, m, gid, preset = job
    adj = tables.adj_of_id(n, gid)
    names = ["tx%d_%d" % (q, g) for q in range(n) for g in range(m)] + ["tz%d_%d" % (q, g) for q in range(n) for g in range(m)]
    if len(names) <= core.TT_MAX:
        core.tt_setup(names)
    else:
        core.tt_disable()
    cands = []

    def fn():
        ctx = Ctx.cur
        X, Z = spec.sym_tableau(n, m)
        for name, val in preset:
            ctx.assume(var(name) if val else var(name) ^ 1)
        return search_obligations(ctx, n, m, X, Z, adj)
    res = explore(fn, mode="fork")
    for v in res.violations[:3]:
        X, Z = spec.sym_tableau(n, m)
        Rm, Sm = spec.env_tableau(X, Z, v["model"])
        cands.append(dict(kind="search", n=n, m=m, R=Rm, S=Sm, adj=adj, label=v["label"]))
    res.violations = []
    leaves = res.leaves
    res.leaves = leaves[:2]
    return dict(res=res.to_json(), cands=cands, none=sum(1 for l in leaves if l.get("result") == "none"), layer=sum(1 for l in leaves if l.get("result") == "layer"))


def _class_job(job):
    """n=4..6: L|G_c> with L symbolic on a window, against the graph of class d; full set or a subset of the generators"""
    n, c, d, conn, window, keep, seed = job
    rnd = random.Random(seed)
    adj_c = tables.rep_graph(n, c)
    adj_d = tables.entries(n, conn)[d]["adj"]
    base = [rnd.randrange(6) for _ in range(n)]
    if seed >= 10000000:          # full-layer family: the two fixed qubits enumerate all 36 Clifford pairs
        base[0], base[1] = (seed - 10000000) // 6, (seed - 10000000) % 6
    pj = dict(family="Fc", n=n, conn=conn, cls=c, adj=adj_c, base_layer=base, window=window, B=None, signs=("affine", 0), seed=seed)
    names = ["l%d%s" % (q, k) for q in window for k in "abcd"]
    core.tt_setup(names)
    cands = []

    def fn():
        ctx = Ctx.cur
        inp = pipeline.build_input(pj, ctx)
        X = [[row[g] for g in keep] for row in inp["X"]]
        Z = [[row[g] for g in keep] for row in inp["Z"]]
        info = search_obligations(ctx, n, len(keep), X, Z, adj_d)
        info["models"] = ctx.model_count()
        return info
    res = explore(fn, mode="fork")
    for v in res.violations[:2]:
        class _C:
            def assume(self, l):
                pass
        inp = pipeline.build_input(pj, _C())
        X = [[row[g] for g in keep] for row in inp["X"]]
        Z = [[row[g] for g in keep] for row in inp["Z"]]
        Rm, Sm = spec.env_tableau(X, Z, v["model"])
        cands.append(dict(kind="search", n=n, m=len(keep), R=Rm, S=Sm, adj=adj_d, label=v["label"]))
    res.violations = []
    leaves = res.leaves
    res.leaves = leaves[:1]
    return dict(res=res.to_json(), cands=cands, none=sum(1 for l in leaves if l.get("result") == "none"), layer=sum(1 for l in leaves if l.get("result") == "layer"))


def _self_job(job):
    """every graph against itself: the graph state's own generators (one qubit carrying a symbolic Clifford) must be
    mapped into the graph's group - for arbitrary graphs, not only table / representative graphs.  The NATIVE search
    is run on a model of every leaf as well (machine-integer semantics) and must agree."""
    n, gids = job
    core.tt_setup(["l0a", "l0b", "l0c", "l0d"])
    fln = loader.native("find_local_clifford_layer")
    grn = loader.native("graph")
    cands = []
    res_all = core.Result()
    nn = nl = 0
    for gid in gids:
        adj = tables.adj_of_id(n, gid)

        def build():
            L = [(var("l0a"), var("l0b"), var("l0c"), var("l0d"))] + [(1, 0, 0, 1)] * (n - 1)
            return spec.layered_graph_tableau(adj, L)

        def fn():
            ctx = Ctx.cur
            a, b, c, d = [var("l0" + k) for k in "abcd"]
            ctx.assume(lxor(land(a, d), land(b, c)))
            X, Z = build()
            info = search_obligations(ctx, n, n, X, Z, adj)
            env = ctx.model_env()
            Rm, Sm = spec.env_tableau(X, Z, env)
            try:
                A = fln.find_local_clifford_layer(np.array(Rm, dtype=np.int8), np.array(Sm, dtype=np.int8), grn.Graph(np.array(adj, dtype=np.int8)))
                native = "none" if A is None else "layer"
            except Exception as e:
                native = "raise:" + type(e).__name__
            ctx.prove("the native search (int8 arithmetic) agrees with the symbolic run on graph %d (native: %s, symbolic: %s)" % (gid, native, info.get("result")),
                      1 if native == info.get("result") else 0)
            return info
        res = explore(fn)
        for v in res.violations[:1]:
            X, Z = build()
            Rm, Sm = spec.env_tableau(X, Z, v["model"])
            cands.append(dict(kind="search", n=n, m=n, R=Rm, S=Sm, adj=adj, label=v["label"]))
        res.violations = []
        nn += sum(1 for l in res.leaves if l.get("result") == "none")
        nl += sum(1 for l in res.leaves if l.get("result") == "layer")
        res.leaves = []
        res_all.merge(res)
    return dict(res=res_all.to_json(), cands=cands, none=nn, layer=nl)


def _perturb_job(job):
    """n=4,5, m=n: a seeded random (generally non-commuting, possibly dependent) operator set with k entries made
    symbolic, against a seeded graph: neighbourhoods of arbitrary Pauli sets, including systems with a trivial kernel"""
    n, k, seed = job
    rnd = random.Random(seed)
    gid = rnd.randrange(2 ** (n * (n - 1) // 2))
    adj = tables.adj_of_id(n, gid)
    Rb = [[rnd.randrange(2) for _ in range(n)] for _ in range(n)]
    Sb = [[rnd.randrange(2) for _ in range(n)] for _ in range(n)]
    cells = rnd.sample([(t, q, g) for t in "xz" for q in range(n) for g in range(n)], k)
    names = ["p%s%d_%d" % c for c in cells]
    core.tt_setup(names)
    cands = []

    def build():
        X = [[Rb[q][g] for g in range(n)] for q in range(n)]
        Z = [[Sb[q][g] for g in range(n)] for q in range(n)]
        for (t, q, g), nm in zip(cells, names):
            (X if t == "x" else Z)[q][g] = var(nm)
        return X, Z

    def fn():
        X, Z = build()
        return search_obligations(Ctx.cur, n, n, X, Z, adj)
    res = explore(fn, mode="fork")
    for v in res.violations[:2]:
        X, Z = build()
        Rm, Sm = spec.env_tableau(X, Z, v["model"])
        cands.append(dict(kind="search", n=n, m=n, R=Rm, S=Sm, adj=adj, label=v["label"]))
    res.violations = []
    leaves = res.leaves
    res.leaves = leaves[:1]
    return dict(res=res.to_json(), cands=cands, none=sum(1 for l in leaves if l.get("result") == "none"), layer=sum(1 for l in leaves if l.get("result") == "layer"))


def _product_job(job):
    """all 3^n product stabilizer groups (each qubit an X, Y or Z eigenstate; per-qubit Pauli symbolic) against the
    empty graph: the inputs with the largest kernels (dimension 3n) - a layer always exists"""
    n, preset = job
    names = ["k%d.%d" % (q, b) for q in range(n) for b in range(2)]
    core.tt_setup(names)
    adj = [[0] * n for _ in range(n)]
    cands = []

    def build():
        X = [[0] * n for _ in range(n)]
        Z = [[0] * n for _ in range(n)]
        for q in range(n):
            X[q][q] = var("k%d.0" % q)
            Z[q][q] = var("k%d.1" % q)
        return X, Z

    def fn():
        ctx = Ctx.cur
        X, Z = build()
        for q in range(n):
            ctx.assume(lor(X[q][q], Z[q][q]))            # not the identity
        for nm, val in preset:
            ctx.assume(var(nm) if val else var(nm) ^ 1)
        if not ctx.feasible():
            return {"empty": True}
        return search_obligations(ctx, n, n, X, Z, adj)
    res = explore(fn, mode="fork")
    for v in res.violations[:2]:
        X, Z = build()
        Rm, Sm = spec.env_tableau(X, Z, v["model"])
        cands.append(dict(kind="search", n=n, m=n, R=Rm, S=Sm, adj=adj, label=v["label"]))
    res.violations = []
    leaves = res.leaves
    res.leaves = leaves[:1]
    return dict(res=res.to_json(), cands=cands, none=sum(1 for l in leaves if l.get("result") == "none"), layer=sum(1 for l in leaves if l.get("result") == "layer"))


def _gates_job(n):
    """local_clifford_layer_to_circuit on a symbolic block (4 bits) at every qubit position: 6 feasible branches;
    the emitted gate word and its inverse act on a symbolic single-qubit Pauli exactly as the block prescribes"""
    fl = loader.sym("find_local_clifford_layer")
    core.tt_setup(["ba", "bb", "bc", "bd", "qx0", "qx1", "qx2"])
    cands = []

    def fn():
        ctx = Ctx.cur
        a, b, c, d = [var("b" + k) for k in "abcd"]
        qsel = core.symint("qx", 3)
        ctx.assume(core.litof(qsel < n))
        q = int(qsel)
        As = [symnp.SymArray(np.eye(n, dtype=np.int64) * (1 if k in (0, 3) else 0), np.int8) for k in range(4)]
        for k, l in enumerate((a, b, c, d)):
            As[k][q, q] = mk((l,))
        det = lxor(land(a, d), land(b, c))
        try:
            qc = fl.local_clifford_layer_to_circuit(As)
        except AssertionError:
            ctx.prove("only non-Clifford blocks (det=0) are rejected", det ^ 1)
            return {"q": q, "rejected": True}
        gates = ztab.gates_of(qc)
        ctx.prove("a circuit is emitted only for genuine Clifford blocks", det)
        ctx.prove("only single-qubit gates h/s on the block's qubit are emitted", 1 if all(g in ("h", "s") and qs == [q] for g, qs in gates) else 0)
        x, z = var("sx"), var("sz")
        p = ztab.P([x if k == q else 0 for k in range(n)], [z if k == q else 0 for k in range(n)], 0)
        f = ztab.push(p, gates)
        ctx.prove("emitted gates act as x'=ax+bz, z'=cx+dz on every single-qubit Pauli",
                  land(leq(f.x[q], lxor(land(a, x), land(b, z))), leq(f.z[q], lxor(land(c, x), land(d, z)))))
        inv = ztab.gates_of(qc.inverse())
        p2 = ztab.P([lxor(land(a, x), land(b, z)) if k == q else 0 for k in range(n)], [lxor(land(c, x), land(d, z)) if k == q else 0 for k in range(n)], 0)
        g = ztab.push(p2, inv)
        ctx.prove("the inverse circuit undoes the block", land(leq(g.x[q], x), leq(g.z[q], z)))
        return {"q": q, "word": [w for w, _ in gates]}
    res = explore(fn, mode="reexec")
    for v in res.violations[:3]:
        cands.append(dict(kind="gates", n=n, block=[int(bool(v["model"].get("b" + k))) for k in "abcd"],
                          q=sum((1 << i) for i in range(3) if v["model"].get("qx.%d" % i)), label=v["label"]))
    res.violations = []
    res.leaves = res.leaves[:6]
    return dict(res=res.to_json(), cands=cands)


def run(tier, seed):
    ck = harness.Check(PID, tier, seed)
    ck.encode("find_local_clifford_layer.find_local_clifford_layer", "find_local_clifford_layer.check_LC", "find_local_clifford_layer.local_clifford_layer_to_circuit",
              "find_local_clifford_layer.generate_single_qubit_symplectic/generate_local_clifford_symplectic", "f2_algebra.null_space/rank/rref/mat_mul/add")
    ck.bounds += ["n=2: every set of m=1,2 Paulis (unconstrained: also non-commuting / dependent), both graphs; n=3: m=1 complete for every graph on 3 vertices, m=2 complete for every graph (quick: 2 seeded graphs), m=3: a seeded %s of the 2048 (graph, 8-bit) partitions of the 2^18 x 8 input space" % ("16" if tier == "quick" else "512"),
                  "n=4..6: L|G_c> with L symbolic on a 1-2 qubit window against the graph of the own class and of other classes, full generator sets and subsets (m<n); product class vs empty graph on 6 qubits (largest kernel)",
                  "completeness: per 'None' path one exists-layer query over all 6^n layers and all inputs on the path; soundness: per 'layer' path the defining equation for all inputs on the path",
                  "n=4,5 (m=n): seeded random unconstrained operator sets with 6 symbolic entries each (64 neighbours per seed) against a seeded graph - reaches systems with a trivial kernel",
                  "all 3^n product stabilizer groups for n=4,5 (thorough: also n=6; quick n=6: 18 seeded ones) with per-qubit Pauli symbolic, against the empty graph: the largest kernels (dimension 3n)",
                  "every graph on n<=4 vertices (quick n=5,6: ~150-200 graphs each, stratified by edge count; thorough: all 1024 five-vertex graphs and ~3000 six-vertex graphs, 250 per edge count) against itself with one symbolic Clifford, incl. agreement of the NATIVE search (machine-integer semantics) on a model of every leaf",
                  "all 6^5 local-Clifford layers for one class per entanglement structure of n=5 (quick: 1 seeded structure) against its own graph",
                  "gate emission: symbolic 2x2 block at every qubit position n=1..6"]
    ck.outside += ["n>=4 operator sets that are not local-Clifford images of class graphs restricted to generator subsets"]
    rnd = random.Random(seed)
    jobs = []
    for m in (1, 2):
        for gid in range(2):
            jobs.append(("s", (2, m, gid, ())))
    g32 = list(range(8)) if tier == "thorough" else sorted(rnd.sample(range(8), 2))
    for gid in range(8):
        jobs.append(("s", (3, 1, gid, ())))
        if gid in g32:
            for bits in itertools.product([0, 1], repeat=2):
                jobs.append(("s", (3, 2, gid, tuple(zip(["tx0_0", "tz0_0"], bits)))))
    names = ["tx0_0", "tz0_0", "tx1_0", "tz1_0", "tx2_0", "tz2_0", "tx0_1", "tz0_1"]
    combos = [(gid, bits) for gid in range(8) for bits in itertools.product([0, 1], repeat=8)]
    if tier == "quick":
        combos = rnd.sample(combos, 16)
    else:
        combos = rnd.sample(combos, 512)
    for gid, bits in combos:
        jobs.append(("s", (3, 3, gid, tuple(zip(names, bits)))))
    for n in (4, 5, 6):
        confs = [c for (nn, c) in ADVERTISED if nn == n]
        K = NCLASSES[n]
        cs = list(range(K)) if n == 4 else sorted(set(pipeline._structure_reps(n) + rnd.sample(range(K), 10 if tier == "quick" else 80)))
        for c in cs:
            for conn in (confs if tier == "thorough" and n <= 5 else [rnd.choice(confs)]):
                others = sorted(set([c, 0, rnd.randrange(K), (c + 1) % K]))
                for d in others:
                    wsize = 2 if (n == 4) else 1
                    window = sorted(rnd.sample(range(n), wsize))
                    keepsets = [list(range(n))]
                    lo = 1 if n <= 4 else n - 2      # very small operator sets on 5-6 qubits have kernels of dimension > 16 (2^k candidate rows)
                    keepsets.append(sorted(rnd.sample(range(n), rnd.randrange(lo, n))))
                    for keep in keepsets:
                        jobs.append(("c", (n, c, d, conn, window, keep, rnd.randrange(10 ** 6))))
    # largest kernels: 6-qubit product class against the empty graph (kernel dimension 18)
    for w in range(2 if tier == "quick" else 6):
        jobs.append(("c", (6, 0, 0, "all", [w], list(range(6)), seed + w)))
    if tier == "thorough":
        jobs.append(("c", (6, 0, 0, "all", [0], [0, 1, 2, 3], seed + 20)))
    for i in range(24 if tier == "quick" else 200):
        jobs.append(("p", (4 if i % 3 else 5, 6, seed * 1000 + i)))
    # full local-Clifford layer (all 6^5 layers) for one class per entanglement structure of n=5, against its own graph:
    # two qubits fixed per job (36 jobs), the other three symbolic
    structs5 = pipeline._structure_reps(5)
    chosen = structs5 if tier == "thorough" else rnd.sample(structs5, 1)
    for c in chosen:
        for b0 in range(6):
            for b1 in range(6):
                jobs.append(("c", (5, c, c, "all", [2, 3, 4], list(range(5)), 10000000 + b0 * 6 + b1)))
    # every graph against itself (arbitrary target graphs), with native agreement
    for n in (3, 4, 5, 6):
        total = 2 ** (n * (n - 1) // 2)
        if n <= 4 or (tier == "thorough" and n == 5):
            gids = list(range(total))
        else:
            # stratified by edge count (uniform over 0..15 edges, then uniform within): dense graphs are as likely as sparse
            by = {}
            for g in range(total):
                by.setdefault(bin(g).count("1"), []).append(g)
            gids = sorted(set(rnd.choice(by[k]) for k in by for _ in range(14 if tier == "quick" else 250)))
        chunk = max(1, len(gids) // 48)
        for i in range(0, len(gids), chunk):
            jobs.append(("S", (n, gids[i:i + chunk])))
    for n in (4, 5, 6):
        if n < 6 or tier == "thorough":
            pn = ["k0.0", "k0.1", "k1.0", "k1.1"] + (["k2.0", "k2.1"] if n == 6 else [])
            for bits in itertools.product([0, 1], repeat=len(pn)):
                jobs.append(("P", (n, tuple(zip(pn, bits)))))
        else:
            # quick tier, 6 qubits (25 CPU-s per leaf: 2^18 candidate rows): one symbolic qubit, the others seeded
            for w in range(6):
                pre = []
                for q in range(6):
                    if q != w:
                        v = rnd.choice([(1, 0), (0, 1), (1, 1)])
                        pre += [("k%d.0" % q, v[0]), ("k%d.1" % q, v[1])]
                jobs.append(("P", (6, tuple(pre))))
    for n in range(1, 7):
        jobs.append(("g", n))
    cands = []
    tot_none = tot_layer = 0
    for job, r in harness.pmap(_dispatch, jobs, progress=500):
        res = core.Result.from_json(r["res"])
        kind, arg = job
        if kind == "s":
            part = "unconstrained n=%d m=%d" % (arg[0], arg[1])
        elif kind == "c":
            part = "class-family n=%d" % arg[0]
        elif kind == "p":
            part = "perturbed-random n=%d" % arg[0]
        elif kind == "P":
            part = "product-groups n=%d" % arg[0]
        elif kind == "S":
            part = "graph-vs-itself n=%d" % arg[0]
        else:
            part = "gate-emission n=%d" % arg
        ck.add(part, res, sample=1 if (kind == "g" and arg == 3) or (kind == "s" and arg[1] == 2 and arg[2] == 1 and arg[0] == 3) else 0)
        tot_none += r.get("none", 0)
        tot_layer += r.get("layer", 0)
        for c in r["cands"]:
            if c["kind"] == "search":
                cands.append(("search n=%d m=%d R=%s S=%s g=%s %s" % (c["n"], c["m"], c["R"], c["S"], c["adj"], c["label"][:30]), c,
                              "find_local_clifford_layer(R=%s, S=%s, graph %s): %s" % (c["R"], c["S"], c["adj"], c["label"])))
            else:
                cands.append(("gates n=%d q=%d block=%s" % (c["n"], c["q"], c["block"]), c, "local_clifford_layer_to_circuit block %s on qubit %d of %d: %s" % (c["block"], c["q"], c["n"], c["label"])))
    ck.extra["paths_returning_none"] = tot_none
    ck.extra["paths_returning_layer"] = tot_layer
    ck.vacuity_twin("both outcomes of the search are exercised (layer found / absence reported)", tot_none > 0 and tot_layer > 0)
    seen = set()
    ck.candidates([c for c in cands if not (c[0] in seen or seen.add(c[0]))][:30])
    return ck.finish()


def _dispatch(job):
    kind, arg = job
    return {"s": _small_job, "c": _class_job, "g": _gates_job, "p": _perturb_job, "P": _product_job, "S": _self_job}[kind](arg)


# ------------------------------------------------------------------------------------------------ replay
def replay(case):
    from htstabilizer.find_local_clifford_layer import find_local_clifford_layer, local_clifford_layer_to_circuit
    from htstabilizer.graph import Graph
    from .. import dense
    if case["kind"] == "gates":
        n, q, blk = case["n"], case["q"], case["block"]
        As = [np.eye(n, dtype=np.int8) * (1 if k in (0, 3) else 0) for k in range(4)]
        for k in range(4):
            As[k][q, q] = blk[k]
        det = (blk[0] * blk[3] + blk[1] * blk[2]) % 2
        try:
            qc = local_clifford_layer_to_circuit(As)
        except AssertionError:
            return det == 1, "genuine Clifford block %s rejected" % blk
        if det == 0:
            return True, "non-Clifford block %s accepted" % blk
        gates = dense.gates_of(qc)
        U = np.eye(2, dtype=complex)
        for g, qs in gates:
            if qs != [q] or g not in dense.ONE:
                return True, "unexpected gate %s" % ((g, qs),)
            U = dense.ONE[g] @ U
        for (x, z) in ((1, 0), (0, 1), (1, 1)):
            lab = "IXZY"[x + 2 * z]
            img = U @ dense.ONE[lab.lower()] @ U.conj().T
            x2, z2 = (blk[0] * x + blk[1] * z) % 2, (blk[2] * x + blk[3] * z) % 2
            want = dense.ONE["IXZY"[x2 + 2 * z2].lower()] if (x2 or z2) else np.eye(2)
            if min(np.abs(img - want).max(), np.abs(img + want).max()) > 1e-9:
                return True, "block %s on qubit %d: emitted word %s maps %s to something other than +-%s" % (blk, q, [g for g, _ in gates], lab, "IXZY"[x2 + 2 * z2])
        return False, "gate word implements the block"
    n, m = case["n"], case["m"]
    R = np.array(case["R"], dtype=np.int8).reshape(n, m)
    S = np.array(case["S"], dtype=np.int8).reshape(n, m)
    adj = case["adj"]
    g = Graph(np.array(adj, dtype=np.int8))
    try:
        A = find_local_clifford_layer(R.copy(), S.copy(), g)
    except Exception as e:
        return True, "raised %r" % (e,)

    def ok_layer(blocks):
        for gcol in range(m):
            xs = [(blocks[q][0] * R[q, gcol] + blocks[q][1] * S[q, gcol]) % 2 for q in range(n)]
            zs = [(blocks[q][2] * R[q, gcol] + blocks[q][3] * S[q, gcol]) % 2 for q in range(n)]
            for i in range(n):
                s = 0
                for j in range(n):
                    if i != j:
                        s ^= adj[i][j] & int(xs[j])
                if s != zs[i]:
                    return False
        return True
    exists = any(ok_layer(combo) for combo in itertools.product(spec.SIX, repeat=n))
    if A is None:
        return exists, "search reports no layer although brute force over 6^%d layers finds one" % n if exists else "absence confirmed by brute force"
    blocks = [tuple(int(A[k][q][q]) for k in range(4)) for q in range(n)]
    off = any(int(A[k][i][j]) for k in range(4) for i in range(n) for j in range(n) if i != j)
    genuine = all(b in spec.SIX for b in blocks)
    if off or not genuine:
        return True, "returned layer is not a layer of single-qubit Cliffords: %s" % (blocks,)
    return (not ok_layer(blocks)), "returned layer %s %s the operators into the graph group (a layer exists: %s)" % (blocks, "maps" if ok_layer(blocks) else "does NOT map", exists)
