"""C14 - all input formats of a stabilizer describe the same signed group."""
import itertools, random
import numpy as np
from .. import harness, loader, core, symnp, spec, ztab, tables, pipeline
from ..core import Ctx, explore, var, land, lxor, lor, lor_all, land_all, lxor_all, leq, mk, SV, SB
from ..coupling_spec import ADVERTISED
from . import c07

PID = "C14"
EXC = pipeline.EXC
CH = "IXZY"      # index = x + 2 z


def _lit(e):
    if isinstance(e, SV):
        return e.bits[0] if len(e.bits) == 1 else None
    if isinstance(e, SB):
        return e.l
    e = int(e)
    return e if e in (0, 1) else None


def _strings_job(job):
    """strings -> object -> strings.  Characters and sign prefixes of `nsym` strings are symbolic (2 bits per character,
    prefix in {none,+,-}); they are realised into concrete Python strings (solver-driven enumeration) before the call."""
    n, nsym, seed, preset = job
    st = loader.sym("stabilizer")
    rnd = random.Random(seed)
    fixed = [rnd.choice(["", "+", "-"]) + "".join(rnd.choice("IXYZ") for _ in range(n)) for _ in range(n)]
    names = []
    for j in range(nsym):
        names += ["c%d_%d.%d" % (j, i, b) for i in range(n) for b in range(2)] + ["p%d.0" % j, "p%d.1" % j]
    if len(names) <= core.TT_MAX:
        core.tt_setup(names)
    else:
        core.tt_disable()
    cands = []

    def fn():
        ctx = Ctx.cur
        loader.reset_state("stabilizer")
        strs = list(fixed)
        for name, val in preset:
            ctx.assume(var(name) if val else var(name) ^ 1)
        for j in range(nsym):
            pre = core.symint("p%d" % j, 2)
            ctx.assume(core.litof(pre < 3))
            chars = [core.symint("c%d_%d" % (j, i), 2) for i in range(n)]
            strs[j] = ["", "+", "-"][int(pre)] + "".join(CH[int(c)] for c in chars)
        try:
            s = st.Stabilizer(list(strs))
        except EXC as e:
            ctx.prove("well-formed Pauli strings must be accepted (%s)" % type(e).__name__, 0, info=dict(strs=strs))
            return {}
        R, S, ph = np.asarray(s.R), np.asarray(s.S), np.asarray(s.phases)
        ok = R.shape == (n, n) and S.shape == (n, n) and ph.shape == (n,) and s.num_qubits == n
        if ok:
            for j, p in enumerate(strs):
                body = p.lstrip("+-")
                for i, c in enumerate(body):
                    if int(R[i, j]) != (1 if c in "XY" else 0) or int(S[i, j]) != (1 if c in "ZY" else 0):
                        ok = False
                if int(ph[j]) != (1 if p.startswith("-") else 0):
                    ok = False
        ctx.prove("first character = qubit 0, Y = (x=1,z=1) without extra sign, '-' prefix = sign bit: parsed object equals the independently parsed Paulis", 1 if ok else 0, info=dict(strs=strs))
        canon = [("-" if p.startswith("-") else "+") + p.lstrip("+-") for p in strs]
        try:
            out1 = s.to_list()
            out_rev = s.to_list(qiskit_convention=True)
            out2 = s.to_list()
            s2 = st.Stabilizer(list(strs))
            rev_first = s2.to_list(qiskit_convention=True)
            fwd_after = s2.to_list()
        except EXC as e:
            ctx.prove("to_list raised %s" % type(e).__name__, 0, info=dict(strs=strs))
            return {}
        ctx.prove("string -> object -> string round-trips exactly (canonical signs)", 1 if (out1 == canon and out2 == canon and fwd_after == canon) else 0, info=dict(strs=strs))
        mirror = [c[0] + c[1:][::-1] for c in canon]
        ctx.prove("the reversed-order export is the exact mirror image (in either call order)", 1 if (out_rev == mirror and rev_first == mirror) else 0, info=dict(strs=strs))
        return {"strs": strs if nsym == n else None}
    res = explore(fn, mode="fork")
    for v in res.violations[:3]:
        cands.append(dict(kind="strings", n=n, strs=v["info"]["strs"], label=v["label"]))
    res.violations = []
    res.leaves = [l for l in res.leaves if l and l.get("strs")][:1]
    return dict(res=res.to_json(), cands=cands)


def _tolist_job(job):
    """object -> strings on a symbolic (R,S,phases): the export realises every entry; obligation against the bits"""
    n, preset = job
    st = loader.sym("stabilizer")
    names = ["tx%d_%d" % (q, g) for q in range(n) for g in range(n)] + ["tz%d_%d" % (q, g) for q in range(n) for g in range(n)] + ["sg%d" % j for j in range(n)]
    if len(names) <= core.TT_MAX:
        core.tt_setup(names)
    else:
        core.tt_disable()
    cands = []

    def fn():
        ctx = Ctx.cur
        loader.reset_state("stabilizer")
        X, Z = spec.sym_tableau(n)
        for name, val in preset:
            ctx.assume(var(name) if val else var(name) ^ 1)
        signs = [var("sg%d" % j) for j in range(n)]
        s = spec.make_stabilizer(st, *spec.to_symarrays(X, Z), phases=pipeline._sign_array(signs))
        out = s.to_list()
        rev = s.to_list(qiskit_convention=True)
        cons = []
        okshape = len(out) == n and all(len(p) == n + 1 for p in out) and len(rev) == n and all(len(p) == n + 1 for p in rev)
        if okshape:
            for j in range(n):
                cons.append(signs[j] if out[j][0] == "-" else signs[j] ^ 1)
                cons.append(1 if out[j][0] in "+-" and rev[j][0] == out[j][0] and rev[j][1:] == out[j][1:][::-1] else 0)
                for i in range(n):
                    c = out[j][1 + i]
                    cons.append(X[i][j] if c in "XY" else X[i][j] ^ 1)
                    cons.append(Z[i][j] if c in "ZY" else Z[i][j] ^ 1)
                    cons.append(1 if c in "IXYZ" else 0)
        ctx.prove("to_list exports exactly the stored bits (qubit 0 first, Y for x=z=1, sign prefix) and its mirror", land_all(cons) if okshape else 0)
        s2 = st.Stabilizer(list(out))
        R2, S2, p2 = np.asarray(s2.R), np.asarray(s2.S), np.asarray(s2.phases)
        back = land_all([leq(X[i][j], int(R2[i, j])) for i in range(n) for j in range(n)] + [leq(Z[i][j], int(S2[i, j])) for i in range(n) for j in range(n)] + [leq(signs[j], int(p2[j])) for j in range(n)])
        ctx.prove("object -> strings -> object is the identity", back)
        return {}
    res = explore(fn, mode="fork")
    for v in res.violations[:3]:
        X, Z = spec.sym_tableau(n)
        Rm, Sm = spec.env_tableau(X, Z, v["model"])
        cands.append(dict(kind="tolist", n=n, R=Rm, S=Sm, phases=[int(bool(v["model"].get("sg%d" % j))) for j in range(n)], label=v["label"]))
    res.violations = []
    res.leaves = []
    return dict(res=res.to_json(), cands=cands)


def _matrix_job(n):
    """matrix tuples, all entries symbolic (no forks), three nominal dtypes; graph input with symbolic adjacency"""
    st = loader.sym("stabilizer")
    gr = loader.sym("graph")
    core.tt_disable()
    cands = []

    def fn():
        ctx = Ctx.cur
        X, Z = spec.sym_tableau(n)
        signs = [var("sg%d" % j) for j in range(n)]
        for dt in (np.int8, np.int64):
            R, S = spec.to_symarrays(X, Z)
            R, S = R.astype(dt), S.astype(dt)
            s = st.Stabilizer((R, S))
            s3 = st.Stabilizer((R, S, pipeline._sign_array(signs).astype(dt)))
            for obj, want_ph in ((s, [0] * n), (s3, signs)):
                Ro, So, po = np.asarray(obj.R), np.asarray(obj.S), np.asarray(obj.phases)
                ok = land_all([leq(_lit(Ro[i, j]), X[i][j]) for i in range(n) for j in range(n)] + [leq(_lit(So[i, j]), Z[i][j]) for i in range(n) for j in range(n)] +
                              [leq(_lit(po[j]), want_ph[j]) for j in range(n)])
                ctx.prove("matrix input (%s): stored X/Z/sign bits equal the given ones, signs default to +" % np.dtype(dt).name, ok)
                ctx.prove("matrix input: stored arrays have dtype int8", 1 if (obj.R.dtype == np.int8 and obj.S.dtype == np.int8 and obj.phases.dtype == np.int8) else 0)
        try:
            st.Stabilizer((symnp.sym_matrix("r", n, n + 1), symnp.sym_matrix("s", n, n + 1)))
            ctx.prove("non-square matrices are rejected", 0)
        except AssertionError:
            ctx.prove("non-square matrices are rejected", 1)
        # graph
        a = np.empty((n, n), dtype=object)
        lits = [[0] * n for _ in range(n)]
        for i in range(n):
            a[i, i] = 0
            for j in range(i + 1, n):
                l = var("g%d_%d" % (i, j))
                lits[i][j] = lits[j][i] = l
                a[i, j] = a[j, i] = mk((l,))
        g = gr.Graph(symnp._wrap(a, np.int8))
        sg = st.Stabilizer(g)
        Rg, Sg, pg = np.asarray(sg.R), np.asarray(sg.S), np.asarray(sg.phases)
        ctx.prove("a graph gives generators X_v Z_N(v) with + signs",
                  land_all([leq(_lit(Rg[i, j]), 1 if i == j else 0) for i in range(n) for j in range(n)] + [leq(_lit(Sg[i, j]), lits[i][j]) for i in range(n) for j in range(n)] + [leq(_lit(pg[j]), 0) for j in range(n)]))
        return {}
    res = explore(fn)
    for v in res.violations[:3]:
        cands.append(dict(kind="matrix", n=n, label=v["label"]))
    res.violations = []
    res.leaves = []
    return dict(res=res.to_json(), cands=cands)


def _graphcirc_job(n):
    """Graph.to_circuit(): symbolic adjacency (get_edges forks per edge), gate list pushed through ztab"""
    gr = loader.sym("graph")
    names = ["g%d_%d" % (i, j) for i in range(n) for j in range(i + 1, n)]
    core.tt_setup(names) if len(names) <= core.TT_MAX else core.tt_disable()
    cands = []

    def fn():
        ctx = Ctx.cur
        a = np.empty((n, n), dtype=object)
        lits = [[0] * n for _ in range(n)]
        for i in range(n):
            a[i, i] = 0
            for j in range(i + 1, n):
                l = var("g%d_%d" % (i, j))
                lits[i][j] = lits[j][i] = l
                a[i, j] = a[j, i] = mk((l,))
        g = gr.Graph(symnp._wrap(a, np.int8))
        try:
            qc = g.to_circuit()
        except (TypeError, ValueError, IndexError) as e:
            # the edgeless graph: qc.cz(*zip(*[])) has no arguments - a graph-state circuit is still expected
            ctx.prove("to_circuit() must work for every graph (raised %s)" % type(e).__name__, 0)
            return {}
        gates = ztab.gates_of(qc)
        obs = []
        for v in range(n):
            img = ztab.push(ztab.P.Z(n, v), gates)
            obs.append(land_all([leq(img.x[q], 1 if q == v else 0) for q in range(n)] + [leq(img.z[q], lits[q][v]) for q in range(n)] + [img.r ^ 1]))
        ctx.prove("Graph.to_circuit() prepares the graph state: +Z_v is mapped to +X_v Z_N(v)", land_all(obs))
        return {"edges": sum(1 for gname, _ in gates if gname == "cz")}
    res = explore(fn)
    for v in res.violations[:3]:
        adjm = [[int(bool(v["model"].get("g%d_%d" % (min(i, j), max(i, j))))) if i != j else 0 for j in range(n)] for i in range(n)]
        cands.append(dict(kind="graphcirc", n=n, adj=adjm, label=v["label"]))
    res.violations = []
    res.leaves = res.leaves[:1]
    return dict(res=res.to_json(), cands=cands)


def _slicing_job(n):
    """circuit constructor with qiskit's tableau replaced by an ARBITRARY symbolic bit matrix (environment stub):
    R[i,j]=T[n+j,i], S[i,j]=T[n+j,n+i], phases[j]=T[n+j,2n]"""
    import qiskit.quantum_info as qi
    from qiskit import QuantumCircuit
    st = loader.sym("stabilizer")
    core.tt_disable()
    cands = []

    def fn():
        ctx = Ctx.cur
        T = np.empty((2 * n, 2 * n + 1), dtype=object)
        for r in range(2 * n):
            for c in range(2 * n + 1):
                T[r, c] = core.SB(var("T%d_%d" % (r, c)))
        Tarr = symnp._wrap(T, bool)

        class _Cliff:
            tableau = Tarr

        class _Stub:
            def __init__(self, data):
                self.num_qubits = n
                self.clifford = _Cliff()
        real = qi.StabilizerState
        qi.StabilizerState = _Stub
        try:
            s = st.Stabilizer(QuantumCircuit(n))
        finally:
            qi.StabilizerState = real
        R, S, ph = np.asarray(s.R), np.asarray(s.S), np.asarray(s.phases)
        cons = []
        for i in range(n):
            for j in range(n):
                cons.append(leq(_lit(R[i, j]), var("T%d_%d" % (n + j, i))))
                cons.append(leq(_lit(S[i, j]), var("T%d_%d" % (n + j, n + i))))
        for j in range(n):
            cons.append(leq(_lit(ph[j]), var("T%d_%d" % (n + j, 2 * n))))
        ctx.prove("the circuit constructor reads generator j from stabilizer row n+j of the tableau (x | z | sign), for every tableau", land_all(cons))
        return {}
    res = explore(fn)
    # A failed slicing obligation means the lemma is not applicable to this tree (e.g. the constructor no longer goes
    # through qiskit's tableau): the lift is dropped and reported, it is never a violation by itself - the bounded
    # circuit programs below check the constructor directly.
    dropped = len(res.violations)
    res.discharged += dropped
    res.violations = []
    res.leaves = []
    return dict(res=res.to_json(), cands=cands, lemma_dropped=dropped)


def _circuit_job(job):
    """bounded direct: gate programs through the real circuit constructor; object == signed group of circuit|0..0>"""
    n, k, first, extra = job
    st = loader.sym("stabilizer")
    alpha = c07.alphabet(n)
    A = len(alpha)
    w = max(1, (A - 1).bit_length())
    core.tt_disable()
    cands = []

    def fn():
        ctx = Ctx.cur
        loader.reset_state("stabilizer")
        if extra is not None:
            gates = extra
        else:
            idx = []
            for i in range(k - (1 if first is not None else 0)):
                v = core.symint("g%d" % i, w)
                ctx.assume(core.litof(v < A))
                idx.append(v)
            gates = ([alpha[first]] if first is not None else []) + [alpha[int(v)] for v in idx]
        qc = c07.build_circuit(n, gates)
        fp = c07.circuit_fingerprint(qc)
        try:
            s = st.Stabilizer(qc)
        except EXC as e:
            ctx.prove("circuit input must be accepted (%s)" % type(e).__name__, 0, info=dict(gates=gates))
            return {}
        gens = c07.state_generators(n, gates)
        R, S, ph = np.asarray(s.R), np.asarray(s.S), np.asarray(s.phases)
        ok = R.shape == (n, n) and S.shape == (n, n) and ph.shape == (n,)
        if ok:
            # same signed group: here even generator-wise (row n+j of qiskit's tableau is the image of Z_j)
            for j in range(n):
                if [int(R[q, j]) for q in range(n)] != gens[j].x or [int(S[q, j]) for q in range(n)] != gens[j].z or int(ph[j]) != gens[j].r:
                    ok = False
        ctx.prove("the object built from a circuit generates precisely the signed stabilizer group of circuit|0..0>", 1 if ok else 0, info=dict(gates=gates))
        ctx.prove("the input circuit is not modified", 1 if c07.circuit_fingerprint(qc) == fp else 0, info=dict(gates=gates))
        if n >= 2:
            from qiskit import QuantumCircuit, QuantumRegister
            qc2 = QuantumCircuit(QuantumRegister(1, "a"), QuantumRegister(n - 1, "b"))
            for g, q in gates:
                getattr(qc2, g)(*q)
            qc2.barrier()
            try:
                s2 = st.Stabilizer(qc2)
                same = np.array_equal(np.asarray(s2.R), R) and np.array_equal(np.asarray(s2.S), S) and np.array_equal(np.asarray(s2.phases), ph)
            except EXC as e:
                same = False
            ctx.prove("the same program on a circuit with two quantum registers (and a barrier) denotes the same signed group", 1 if same else 0, info=dict(gates=gates, multireg=True))
        # composite Clifford instructions whose name does not determine their content (`pauli` labels, appended Clifford
        # operators): two circuits per path that differ only in the content of such an instruction, converted one after
        # the other in the same interpreter (no reset in between)
        from qiskit import QuantumCircuit
        from qiskit.quantum_info import Clifford
        for variant in ("pauli", "clifford"):
            for pre in ("x", "z"):
                g2 = [(pre, [0])] + list(gates)
                qc3 = QuantumCircuit(n)
                if variant == "pauli":
                    qc3.pauli(pre.upper(), [0])
                    for g, q in gates:
                        getattr(qc3, g)(*q)
                else:
                    qc3.append(Clifford(c07.build_circuit(n, g2)), list(range(n)))
                try:
                    s3 = st.Stabilizer(qc3)
                    want = c07.state_generators(n, g2)
                    R3, S3, p3 = np.asarray(s3.R), np.asarray(s3.S), np.asarray(s3.phases)
                    ok3 = R3.shape == (n, n) and S3.shape == (n, n) and p3.shape == (n,) and all(
                        [int(R3[q, j]) for q in range(n)] == want[j].x and [int(S3[q, j]) for q in range(n)] == want[j].z and int(p3[j]) == want[j].r for j in range(n))
                except EXC as e:
                    ok3 = False
                ctx.prove("a circuit with a composite instruction (%s) denotes the signed group of circuit|0..0>, also after a look-alike circuit was converted before" % variant,
                          1 if ok3 else 0, info=dict(gates=gates, composite=variant))
        return {"gates": gates if len(gates) <= 3 else len(gates)}
    res = explore(fn, mode="fork")
    for v in res.violations[:3]:
        cands.append(dict(kind="circuit", n=n, gates=v["info"]["gates"], multireg=bool(v["info"].get("multireg")), composite=v["info"].get("composite"), label=v["label"]))
    res.violations = []
    res.leaves = res.leaves[:1]
    return dict(res=res.to_json(), cands=cands)


def _dispatch(job):
    return {"s": _strings_job, "t": _tolist_job, "m": _matrix_job, "g": _graphcirc_job, "l": _slicing_job, "c": _circuit_job}[job[0]](job[1])


def _rejections(ck):
    stn = loader.native("stabilizer")
    cases = [(["XQ", "ZZ"], ValueError, "foreign character"), (["XX", "ZZZ"], ValueError, "unequal lengths"), (["XXI", "ZZI"], AssertionError, "wrong number of strings")]
    for data, exc, what in cases:
        ck.obligations += 1
        try:
            stn.Stabilizer(list(data))
            ck.candidate("reject %s" % data, dict(kind="reject", data=data), "malformed Pauli list %s (%s) is accepted" % (data, what))
        except exc:
            ck.discharged += 1
        except Exception as e:
            ck.candidate("reject %s" % data, dict(kind="reject", data=data), "malformed Pauli list %s (%s) raises %r" % (data, what, e))


def run(tier, seed):
    ck = harness.Check(PID, tier, seed)
    ck.encode("stabilizer.Stabilizer.__init__ (strings, matrices, graph, circuit branches)", "stabilizer.Stabilizer.to_list", "graph.Graph.__init__/to_circuit/get_edges")
    rnd = random.Random(seed)
    ck.bounds += ["strings: n=2 all strings symbolic (every character in IXYZ, every prefix in none/+/-: complete); n=3..6: one symbolic string, the others seeded; characters are realised before the call (solver-driven enumeration)",
                  "to_list: symbolic (R,S,signs): n=2 complete; n=3: seeded %d of 512 partitions" % (8 if tier == "quick" else 64),
                  "matrices and graph input: all entries symbolic, n=2..6, no forks", "Graph.to_circuit: symbolic adjacency n=2..%d" % (4 if tier == "quick" else 5),
                  "circuit input: slicing lemma over an arbitrary symbolic tableau n=2..6 (qiskit's StabilizerState stubbed); all programs of <=%s gates on 2 qubits, <=2 on 3 qubits; every lookup-table circuit; seeded long programs" % ("2" if tier == "quick" else "3"),
                  "composite Clifford instructions (qiskit `pauli` label gates and appended Clifford operators, whose name does not determine their content): for every explored program, two look-alike circuits differing only in that content, converted consecutively in one interpreter"]
    ck.outside += ["strings with symbolic characters for several generators at n>=3", "qiskit's own tableau computation (validated against ztab on the bounded programs and all table circuits)"]
    ck.validated += ztab.validate_against_qiskit(seed=seed, trials=200)
    jobs = [("s", (2, 2, seed, ()))]
    for n in range(3, 7):
        for t in range(2):
            jobs.append(("s", (n, 1, seed + 10 * n + t, ())))
    jobs.append(("t", (2, ())))
    n9 = ["tx0_0", "tz0_0", "tx1_0", "tz1_0", "tx2_0", "tz2_0", "tx0_1", "tz0_1", "tx1_1"]
    for _ in range(8 if tier == "quick" else 64):
        jobs.append(("t", (3, tuple((nm, rnd.randrange(2)) for nm in n9))))
    for n in range(2, 7):
        jobs.append(("m", n))
        jobs.append(("l", n))
    for n in range(2, (4 if tier == "quick" else 5) + 1):
        jobs.append(("g", n))
    A2, A3 = len(c07.alphabet(2)), len(c07.alphabet(3))
    jobs += [("c", (2, 0, None, None)), ("c", (2, 1, None, None)), ("c", (3, 1, None, None))]
    jobs += [("c", (2, 2, f, None)) for f in range(A2)] + [("c", (3, 2, f, None)) for f in range(A3)]
    if tier == "thorough":
        jobs += [("c", (2, 3, f, None)) for f in range(A2)]
    # every table circuit and seeded structured long programs (with sdg, y, swap)
    for (n, conn) in ADVERTISED:
        ents = tables.entries(n, conn)
        for e in (ents if (n <= 5 or tier == "thorough") else rnd.sample(ents, 60)):
            jobs.append(("c", (n, 0, None, [(g, list(q)) for g, q in e["gates"]])))
    for i in range(60 if tier == "quick" else 400):
        n = rnd.randrange(2, 7)
        prog = [rnd.choice(c07.alphabet(n)) for _ in range(rnd.randrange(3, 25))]
        jobs.append(("c", (n, 0, None, prog)))
    cands = []
    for job, r in harness.pmap(_dispatch, jobs, progress=1000):
        res = core.Result.from_json(r["res"])
        part = {"s": "strings", "t": "to_list", "m": "matrices+graph", "g": "graph-circuit", "l": "slicing-lemma", "c": "circuit-input"}[job[0]]
        n = job[1] if isinstance(job[1], int) else job[1][0]
        ck.add("%s n=%d" % (part, n), res, sample=1 if job[0] in ("s", "g") else 0)
        if r.get("lemma_dropped"):
            ck.lemmas.append("slicing lemma NOT established for n=%d on this tree: circuit input is covered by the bounded programs only" % n)
        for c in r["cands"]:
            cands.append(("%s n=%d %s %s" % (c["kind"], c["n"], c.get("strs", c.get("gates", c.get("R", c.get("adj", "")))), c["label"][:40]), c, "%s input, n=%d: %s %s" % (c["kind"], c["n"], c["label"], c.get("strs", c.get("gates", c.get("adj", ""))))))
    seen = set()
    ck.candidates([c for c in cands if not (c[0] in seen or seen.add(c[0]))][:25])
    _rejections(ck)
    return ck.finish()


# ------------------------------------------------------------------------------------------------ replay
def replay(case):
    from htstabilizer.stabilizer import Stabilizer
    from htstabilizer.graph import Graph
    from .. import dense
    kind, n = case["kind"], case.get("n")
    if kind == "reject":
        try:
            Stabilizer(list(case["data"]))
            return True, "accepted"
        except (ValueError, AssertionError):
            return False, "rejected"
        except Exception as e:
            return True, "raised %r" % (e,)
    if kind == "strings":
        strs = case["strs"]
        try:
            s = Stabilizer(list(strs))
        except Exception as e:
            return True, "well-formed strings %s rejected: %r" % (strs, e)
        for j, p in enumerate(strs):
            body = p.lstrip("+-")
            for i, c in enumerate(body):
                if int(s.R[i, j]) != (c in "XY") or int(s.S[i, j]) != (c in "ZY"):
                    return True, "string %d %r parsed to x=%d z=%d at qubit %d" % (j, p, s.R[i, j], s.S[i, j], i)
            if int(s.phases[j]) != p.startswith("-"):
                return True, "sign of %r parsed as %d" % (p, s.phases[j])
        canon = [("-" if p.startswith("-") else "+") + p.lstrip("+-") for p in strs]
        mirror = [c[0] + c[1:][::-1] for c in canon]
        a, b, c_ = s.to_list(), s.to_list(qiskit_convention=True), s.to_list()
        s2 = Stabilizer(list(strs))
        d, e = s2.to_list(qiskit_convention=True), s2.to_list()
        if a != canon or c_ != canon or e != canon:
            return True, "round trip of %s gives %s / %s / %s" % (strs, a, c_, e)
        return (b != mirror or d != mirror), "mirror export %s / %s, expected %s" % (b, d, mirror)
    if kind == "tolist":
        R, S, ph = np.array(case["R"], dtype=np.int8), np.array(case["S"], dtype=np.int8), np.array(case["phases"], dtype=np.int8)
        s = Stabilizer((R, S, ph))
        out = s.to_list()
        want = [("-" if ph[j] else "+") + "".join(CH[int(R[i, j]) + 2 * int(S[i, j])] for i in range(n)) for j in range(n)]
        rev = s.to_list(qiskit_convention=True)
        if out != want or rev != [w[0] + w[1:][::-1] for w in want]:
            return True, "to_list gives %s / %s, bits say %s" % (out, rev, want)
        s2 = Stabilizer(out)
        return not (np.array_equal(s2.R, R) and np.array_equal(s2.S, S) and np.array_equal(s2.phases, ph)), "object->strings->object"
    if kind == "matrix":
        rnd = np.random.RandomState(0)
        for dt in (np.int8, np.int64, bool):
            R, S, ph = rnd.randint(0, 2, (n, n)).astype(dt), rnd.randint(0, 2, (n, n)).astype(dt), rnd.randint(0, 2, n).astype(dt)
            for data, wp in (((R, S), np.zeros(n)), ((R, S, ph), ph)):
                s = Stabilizer(data)
                if not (np.array_equal(s.R, R.astype(int)) and np.array_equal(s.S, S.astype(int)) and np.array_equal(s.phases, wp.astype(int)) and s.R.dtype == np.int8 and s.phases.dtype == np.int8):
                    return True, "matrix input with dtype %s is not stored faithfully" % np.dtype(dt).name
        try:
            Stabilizer((np.zeros((n, n + 1), dtype=np.int8), np.zeros((n, n + 1), dtype=np.int8)))
            return True, "non-square accepted"
        except AssertionError:
            pass
        adj = rnd.randint(0, 2, (n, n))
        adj = np.triu(adj, 1)
        adj = (adj + adj.T).astype(np.int8)
        s = Stabilizer(Graph(adj.copy()))
        return not (np.array_equal(s.R, np.eye(n)) and np.array_equal(s.S, adj) and not s.phases.any()), "graph input"
    if kind == "graphcirc":
        adj = np.array(case["adj"], dtype=np.int8)
        try:
            qc = Graph(adj.copy()).to_circuit()
        except Exception as e:
            return True, "Graph.to_circuit() raised %r for adjacency %s" % (e, case["adj"])
        psi = dense.run(n, dense.gates_of(qc))
        for v in range(n):
            lab = "".join("X" if q == v else ("Z" if adj[q, v] else "I") for q in range(n))
            if abs(dense.expectation(psi, n, lab) - 1) > 1e-9:
                return True, "<%s> = %.2f on Graph.to_circuit()|0>" % (lab, dense.expectation(psi, n, lab))
        return False, "graph state ok"
    if kind == "circuit" and case.get("composite"):
        gates = [(g, list(q)) for g, q in case["gates"]]
        from qiskit import QuantumCircuit
        from qiskit.quantum_info import Clifford
        for pre in ("x", "z"):
            g2 = [(pre, [0])] + gates
            qc = QuantumCircuit(n)
            if case["composite"] == "pauli":
                qc.pauli(pre.upper(), [0])
                for g, q in gates:
                    getattr(qc, g)(*q)
            else:
                ref = QuantumCircuit(n)
                for g, q in g2:
                    getattr(ref, g)(*q)
                qc.append(Clifford(ref), list(range(n)))
            try:
                s = Stabilizer(qc)
            except Exception as e:
                return True, "raised %r" % (e,)
            psi = dense.run(n, g2)
            labs = s.to_list()
            for lab in labs:
                if abs(dense.expectation(psi, n, lab) - 1) > 1e-9:
                    return True, "after a look-alike circuit: Stabilizer(circuit with %s instruction = %s) lists %s but <%s> = %.2f on circuit|0..0>" % (case["composite"], g2, labs, lab, dense.expectation(psi, n, lab))
        return False, "composite instructions ok"
    if kind == "circuit":
        gates = [(g, list(q)) for g, q in case["gates"]]
        from qiskit import QuantumCircuit, QuantumRegister
        qc = QuantumCircuit(QuantumRegister(1, "a"), QuantumRegister(n - 1, "b")) if case.get("multireg") else QuantumCircuit(n)
        for g, q in gates:
            getattr(qc, g)(*q)
        if case.get("multireg"):
            qc.barrier()
        try:
            s = Stabilizer(qc)
        except Exception as e:
            return True, "raised %r" % (e,)
        psi = dense.run(n, gates)
        labs = s.to_list()
        for lab in labs:
            if abs(dense.expectation(psi, n, lab) - 1) > 1e-9:
                return True, "Stabilizer(circuit %s) lists %s but <%s> = %.2f on circuit|0..0>" % (gates, labs, lab, dense.expectation(psi, n, lab))
        return (not Stabilizer(labs).validate()), "generators independent/commuting"
    if kind == "slicing":
        return False, "stub-level obligation: confirm through the bounded circuit programs"
    return False, "unknown"
