"""C01 - the preparation circuit prepares exactly the requested stabilizer state (signs included)."""
from .. import harness, pipeline
from . import _pipeprop

PID = "C01"
replay = _pipeprop.replay


def run(tier, seed):
    ck = harness.Check(PID, tier, seed)
    ck.encode("stabilizer_circuits.get_preparation_circuit", "stabilizer_circuits._get_preparation_circuit_modulo_phase",
              "lc_classes.determine_lc_class*", "circuit_lookup.stabilizer_circuit_lookup/parse_circuit", "graph.Graph.decompress",
              "find_local_clifford_layer.find_local_clifford_layer", "find_local_clifford_layer.local_clifford_layer_to_circuit",
              "f2_algebra.*", "rotate_stabilizer_into_state.rotate_stabilizer_into_state/_rotate_stabilizer_into_state_circuit/synth_circuit_from_stabilizers",
              "stabilizer.Stabilizer.to_list/expand/is_qubit_entangled")
    ck.bounds += ["F3: n=2 every valid tableau x every sign vector, all bases; n=3: %s partitions of the tableau space (all bases, all signs inside a partition)" % ("a seeded 10 of the 512" if tier == "quick" else "all 64 of 64"),
                  "Fc: n=4..6 per class graph: local-Clifford layer symbolic on a qubit window (n=4: %s qubits, n=5: %s, n=6: 1), seeded layer elsewhere, seeded basis change, sign vectors in a seeded affine family of 4" % (("2", "1") if tier == "quick" else ("3", "2")),
                  "classes: all for n<=4 (thorough: n<=5); otherwise one per entanglement structure + seeded ones (quick: 24 for n=5, 14 for n=6 per configuration; thorough: 150 for n=6)"]
    ck.bounds += ["Fc0: EVERY class of EVERY configuration once (table graph, seeded concrete local-Clifford layer - thorough: one symbolic qubit for n<=5 -, seeded basis change, 2 sign vectors)"]
    ck.outside += ["n>=4: layers outside the window / arbitrary bases / all 2^n signs combined (lifted by lemmas L1-L5, DESIGN.md §5)",
                   "input formats other than matrices (reduced to matrices by C14)",
                   "qiskit (QuantumCircuit, InverseCancellation, StabilizerState, Pauli.evolve) runs concretely and is trusted"]
    ck.assumptions += ["validity of the input is assumed through an independent Boolean spec, not through Stabilizer.validate()"]
    jobs = pipeline.f3_jobs(tier, seed) + pipeline.fc_jobs(tier, seed) + pipeline.fc0_jobs(tier, seed)
    _pipeprop.drive(ck, tier, seed, "prep", {"C01"}, jobs)
    _pipeprop.vacuity(ck, "prep", {"C01"})
    return ck.finish()
