"""C08 - no silent wrong answers: invalid or unsupported requests are rejected."""
import itertools, os, random, re
import numpy as np
from .. import harness, loader, core, symnp, spec, ztab, tables, pipeline, coupling_spec
from ..core import Ctx, explore, var, land, lxor, lor, lor_all, land_all, lxor_all, leq, mk
from ..coupling_spec import ADVERTISED

PID = "C08"
EXC = pipeline.EXC


def _validate_job(job):
    """Stabilizer.validate() on unconstrained (R,S) with symbolic signs: accepts exactly the valid sets"""
    n, preset = job
    st = loader.sym("stabilizer")
    names = ["tx%d_%d" % (q, g) for q in range(n) for g in range(n)] + ["tz%d_%d" % (q, g) for q in range(n) for g in range(n)] + ["sg%d" % j for j in range(n)]
    if len(names) <= core.TT_MAX:
        core.tt_setup(names)
    else:
        core.tt_disable()
    cands = []

    def fn():
        ctx = Ctx.cur
        for m in ("stabilizer", "f2_algebra"):
            loader.reset_state(m)
        X, Z = spec.sym_tableau(n)
        for name, val in preset:
            ctx.assume(var(name) if val else var(name) ^ 1)
        signs = [var("sg%d" % j) for j in range(n)]
        R, S = spec.to_symarrays(X, Z)
        s = spec.make_stabilizer(st, R, S, phases=pipeline._sign_array(signs))
        try:
            r = s.validate()
        except EXC as e:
            ctx.prove("validate() must answer, not raise %s" % type(e).__name__, 0)
            return {}
        rl = core.litof(r) if not isinstance(r, (bool, np.bool_)) else int(bool(r))
        ctx.prove("validate() accepts exactly the sets of n commuting, independent Paulis (whatever the signs)", leq(rl, spec.valid(X, Z)))
        return {"accepted": bool(rl == 1) if rl in (0, 1) else None}
    res = explore(fn)
    for v in res.violations[:3]:
        X, Z = spec.sym_tableau(n)
        Rm, Sm = spec.env_tableau(X, Z, v["model"])
        cands.append(dict(kind="validate", n=n, R=Rm, S=Sm, phases=[int(bool(v["model"].get("sg%d" % j))) for j in range(n)], label=v["label"]))
    res.violations = []
    acc = set(l.get("accepted") for l in res.leaves if l)
    res.leaves = res.leaves[:2]
    return dict(res=res.to_json(), cands=cands, both=(acc >= {True, False}))


def _e2e_job(job):
    """end to end on UNCONSTRAINED tableaux: every outcome is an exception or a circuit that is right for the operators"""
    n, conn, preset, api = job
    sc = loader.sym("stabilizer_circuits")
    st = loader.sym("stabilizer")
    names = ["tx%d_%d" % (q, g) for q in range(n) for g in range(n)] + ["tz%d_%d" % (q, g) for q in range(n) for g in range(n)] + ["sg%d" % j for j in range(n)]
    if len(names) <= core.TT_MAX:
        core.tt_setup(names)
    else:
        core.tt_disable()
    cands = []

    def fn():
        ctx = Ctx.cur
        for m in pipeline.RESET_MODULES:
            loader.reset_state(m)
        X, Z = spec.sym_tableau(n)
        for name, val in preset:
            ctx.assume(var(name) if val else var(name) ^ 1)
        signs = [var("sg%d" % j) for j in range(n)]
        R, S = spec.to_symarrays(X, Z)
        s = spec.make_stabilizer(st, R, S, phases=pipeline._sign_array(signs))
        valid = spec.valid(X, Z)
        try:
            qc = sc.get_preparation_circuit(s, conn) if api == "prep" else sc.get_readout_circuit(s, conn)
        except EXC as e:
            ctx.prove("a valid stabilizer is served (raised %s)" % type(e).__name__, valid ^ 1)
            return {"outcome": "raise:" + type(e).__name__}
        gates = ztab.gates_of(qc)
        if api == "prep":
            ctx.prove("a request to prepare a non-stabilizer always raises", valid)
            obs = []
            for j in range(n):
                back = ztab.pull(ztab.P([X[q][j] for q in range(n)], [Z[q][j] for q in range(n)], signs[j]), gates)
                obs.append(land(lor_all(back.x) ^ 1, back.r ^ 1))
            ctx.prove("a returned preparation circuit's output is stabilised by every given operator", land_all(obs))
        else:
            obs = []
            for j in range(n):
                f = ztab.push(ztab.P([X[q][j] for q in range(n)], [Z[q][j] for q in range(n)], 0), gates)
                obs.append(lor_all(f.x) ^ 1)
            ctx.prove("a returned readout circuit diagonalises every given operator", land_all(obs))
        return {"outcome": "circuit"}
    res = explore(fn, mode="fork")
    for v in res.violations[:3]:
        X, Z = spec.sym_tableau(n)
        Rm, Sm = spec.env_tableau(X, Z, v["model"])
        cands.append(dict(kind="e2e", api=api, n=n, conn=conn, R=Rm, S=Sm, phases=[int(bool(v["model"].get("sg%d" % j))) for j in range(n)], label=v["label"]))
    res.violations = []
    outs = {}
    for l in res.leaves:
        if l:
            outs[l.get("outcome")] = outs.get(l.get("outcome"), 0) + 1
    res.leaves = []
    return dict(res=res.to_json(), cands=cands, outcomes=outs)


def _perturb_job(job):
    """n=4..6 end to end: a seeded base tableau (a valid stabilizer L|G_c> in graph-ish form, or a random matrix pair)
    with k entries and one sign made symbolic - neighbourhoods that mix valid and invalid inputs"""
    n, conn, k, seed, api, valid_base = job
    rnd = random.Random(seed)
    sc = loader.sym("stabilizer_circuits")
    st = loader.sym("stabilizer")
    if valid_base:
        cls = rnd.randrange(coupling_spec.NCLASSES[n])
        adj = tables.rep_graph(n, cls)
        L = [spec.SIX[rnd.randrange(6)] for _ in range(n)]
        Xb, Zb = spec.layered_graph_tableau(adj, L)
        B = spec.random_invertible(n, rnd)
        Xb, Zb = spec.change_basis(Xb, Zb, B)
    else:
        Xb = [[rnd.randrange(2) for _ in range(n)] for _ in range(n)]
        Zb = [[rnd.randrange(2) for _ in range(n)] for _ in range(n)]
    cells = rnd.sample([(t, q, g) for t in "xz" for q in range(n) for g in range(n)], k)
    names = ["p%s%d_%d" % c for c in cells] + ["sg0"]
    core.tt_setup(names)
    sb = [rnd.randrange(2) for _ in range(n)]
    cands = []

    def build():
        X = [row[:] for row in Xb]
        Z = [row[:] for row in Zb]
        for (t, q, g), nm in zip(cells, names):
            (X if t == "x" else Z)[q][g] = var(nm)
        signs = [var("sg0")] + sb[1:]
        return X, Z, signs

    def fn():
        ctx = Ctx.cur
        for m in pipeline.RESET_MODULES:
            loader.reset_state(m)
        X, Z, signs = build()
        R, S = spec.to_symarrays(X, Z)
        s = spec.make_stabilizer(st, R, S, phases=pipeline._sign_array(signs))
        valid = spec.valid(X, Z)
        try:
            qc = sc.get_preparation_circuit(s, conn) if api == "prep" else sc.get_readout_circuit(s, conn)
        except EXC as e:
            ctx.prove("a valid stabilizer is served (raised %s)" % type(e).__name__, valid ^ 1)
            return {"outcome": "raise:" + type(e).__name__}
        gates = ztab.gates_of(qc)
        if api == "prep":
            ctx.prove("a request to prepare a non-stabilizer always raises", valid)
            obs = []
            for j in range(n):
                back = ztab.pull(ztab.P([X[q][j] for q in range(n)], [Z[q][j] for q in range(n)], signs[j]), gates)
                obs.append(land(lor_all(back.x) ^ 1, back.r ^ 1))
            ctx.prove("a returned preparation circuit's output is stabilised by every given operator", land_all(obs))
        else:
            obs = []
            for j in range(n):
                f = ztab.push(ztab.P([X[q][j] for q in range(n)], [Z[q][j] for q in range(n)], 0), gates)
                obs.append(lor_all(f.x) ^ 1)
            ctx.prove("a returned readout circuit diagonalises every given operator", land_all(obs))
        return {"outcome": "circuit"}
    res = explore(fn, mode="fork")
    for v in res.violations[:2]:
        X, Z, signs = build()
        Rm, Sm = spec.env_tableau(X, Z, v["model"])
        cands.append(dict(kind="e2e", api=api, n=n, conn=conn, R=Rm, S=Sm, phases=[int(core.evaluate(l, v["model"])) if l not in (0, 1) else l for l in signs], label=v["label"]))
    res.violations = []
    outs = {}
    for l in res.leaves:
        if l:
            outs[l.get("outcome")] = outs.get(l.get("outcome"), 0) + 1
    res.leaves = []
    return dict(res=res.to_json(), cands=cands, outcomes=outs)


def _names_universe():
    names = {"all", "linear", "star", "cycle", "T", "Q", "E", "H", "ladder", "", "ALL", "Linear", "t", "q", "all ", "allx", "full", "ring"}
    for fn in os.listdir(tables.DATA_DIR):
        m = re.match(r"^(?:stabilizer|mub)\d+-(.+)\.txt$", fn)
        if m:
            names.add(m.group(1))
    return sorted(names)


def _entry_points():
    """name -> callable(n, conn) exercising one public entry point with an input of n qubits"""
    from qiskit import QuantumCircuit
    sc = loader.native("stabilizer_circuits")
    mc = loader.native("mub_circuits")
    tm = loader.native("tomography")
    cs = loader.native("connectivity_support")
    stn = loader.native("stabilizer")

    def stab(n):
        return stn.Stabilizer((np.eye(n, dtype=np.int8), np.zeros((n, n), dtype=np.int8)))

    def circ(n):
        qc = QuantumCircuit(n)
        for q in range(n):
            qc.h(q)
        return qc
    return {
        "get_preparation_circuit": lambda n, c: sc.get_preparation_circuit(stab(n), c),
        "get_readout_circuit": lambda n, c: sc.get_readout_circuit(stab(n), c),
        "compress_preparation_circuit": lambda n, c: sc.compress_preparation_circuit(circ(n), c),
        "get_mub_circuits": lambda n, c: mc.get_mub_circuits(n, c),
        "get_mubs": lambda n, c: mc.get_mubs(n, c),
        "get_mub_info": lambda n, c: mc.get_mub_info(n, c),
        "stabilizer_measurement_circuit": lambda n, c: tm.stabilizer_measurement_circuit(circ(n), stab(n), c),
        "full_state_tomography_circuits": lambda n, c: tm.full_state_tomography_circuits(circ(n), c),
        "get_connectivity_graph": lambda n, c: cs.get_connectivity_graph(n, c),
        "assert_connectivity_is_supported": lambda n, c: cs.assert_connectivity_is_supported(n, c),
        "is_connectivity_supported": lambda n, c: (_ for _ in ()).throw(AssertionError("unsupported")) if not cs.is_connectivity_supported(n, c) else True,
    }


def run(tier, seed):
    ck = harness.Check(PID, tier, seed)
    ck.encode("stabilizer.Stabilizer.validate", "f2_algebra.rank/rref/mat_mul", "stabilizer_circuits.get_preparation_circuit/get_readout_circuit/compress_preparation_circuit",
              "connectivity_support.assert_connectivity_is_supported/is_connectivity_supported/get_connectivity_graph", "mub_circuits.*", "tomography.stabilizer_measurement_circuit/full_state_tomography_circuits")
    rnd = random.Random(seed)
    nv = 3 if tier == "quick" else 4
    ck.bounds += ["validate(): every pair of n x n binary matrices with every sign vector, n=2,3 complete%s" % (" and n=4 (a seeded 64 of 4096 partitions)" if tier == "thorough" else ""),
                  "end to end (prep and readout) on unconstrained tableaux: n=2 every matrix pair x sign vector; n=3: seeded %d of 4096 partitions per configuration" % (6 if tier == "quick" else 64),
                  "end to end n=4..6: %d seeded neighbourhoods (base = valid stabilizer in a random basis or random matrix pair; 5 entries + 1 sign symbolic: 64 inputs each, mixing valid and invalid)" % (40 if tier == "quick" else 400),
                  "configuration gate: every public entry point x n in -1..8 x every name in a universe containing all data-file suffixes (incl. strays), case variants and foreign names"]
    ck.outside += ["string inputs (reduced to matrices by C14)", "n>=4 unconstrained end-to-end inputs beyond the seeded neighbourhoods", "python -O (assert-based rejections disappear)"]
    jobs = [("v", (2, ()))]
    names3 = ["tx0_0", "tz0_0", "tx1_0", "tz1_0", "tx2_0", "tz2_0"]
    for bits in itertools.product([0, 1], repeat=6):
        jobs.append(("v", (3, tuple(zip(names3, bits)))))
    if tier == "thorough":
        names4 = ["tx%d_%d" % (q, g) for g in range(2) for q in range(4)] + ["tz%d_0" % q for q in range(4)]
        for _ in range(64):
            jobs.append(("v", (4, tuple((nm, rnd.randrange(2)) for nm in names4))))
    for api in ("prep", "readout"):
        jobs.append(("e", (2, "all", (), api)))
        names12 = ["tx%d_%d" % (q, g) for g in range(2) for q in range(3)] + ["tz%d_%d" % (q, g) for g in range(2) for q in range(3)]
        for conn in ("all", "linear"):
            for _ in range(6 if tier == "quick" else 64):
                jobs.append(("e", (3, conn, tuple((nm, rnd.randrange(2)) for nm in names12), api)))
    for i in range(40 if tier == "quick" else 400):
        n = 4 + (i % 3)
        conn = rnd.choice([c for (nn, c) in ADVERTISED if nn == n])
        jobs.append(("p", (n, conn, 5, seed * 7919 + i, "prep" if i % 2 else "readout", i % 4 < 2)))
    cands = []
    both = True
    outcomes = {}
    for job, r in harness.pmap(_dispatch, jobs, progress=50):
        res = core.Result.from_json(r["res"])
        kind, arg = job
        part = ("validate n=%d" % arg[0]) if kind == "v" else ("end-to-end %s %d-%s" % (arg[3], arg[0], arg[1])) if kind == "e" else ("end-to-end neighbourhoods %s n=%d" % (arg[4], arg[0]))
        ck.add(part, res, sample=1 if kind == "v" and not arg[1] else 0)
        if kind == "v" and arg[0] == 2:
            both = both and r["both"]
        for k, v in r.get("outcomes", {}).items():
            outcomes[k] = outcomes.get(k, 0) + v
        for c in r["cands"]:
            cands.append(("%s n=%d R=%s S=%s ph=%s %s" % (c["kind"], c["n"], c["R"], c["S"], c["phases"], c.get("api", "")), c,
                          "%s on R=%s S=%s signs=%s: %s" % (c.get("api", "validate()"), c["R"], c["S"], c["phases"], c["label"])))
    ck.extra["end_to_end_outcome_classes"] = outcomes
    ck.vacuity_twin("validate harness sees both accepted and rejected inputs", both)
    ck.vacuity_twin("end-to-end harness sees both exceptions and returned circuits", any(k.startswith("raise") for k in outcomes) and "circuit" in outcomes)
    seen = set()
    ck.candidates([c for c in cands if not (c[0] in seen or seen.add(c[0]))][:20])
    # ---- configuration gate (finite, concrete)
    cs = loader.native("connectivity_support")
    ck.obligations += 1
    if sorted(cs.get_available_connectivities()) == sorted(ADVERTISED):
        ck.discharged += 1
    else:
        ck.candidate("available list", dict(kind="gate", entry="get_available_connectivities", n=0, conn=""), "get_available_connectivities() is not the advertised list")
    eps = _entry_points()
    uni = _names_universe()
    gate_c = []
    for ename, f in eps.items():
        for n in range(-1, 9):
            for name in uni:
                if n < 1 and ename in ("compress_preparation_circuit", "stabilizer_measurement_circuit", "full_state_tomography_circuits", "get_preparation_circuit", "get_readout_circuit"):
                    continue   # no input object with fewer than one qubit exists
                adv = (n, name) in ADVERTISED
                ck.obligations += 1
                try:
                    f(n, name)
                    served = True
                    err = None
                except Exception as e:
                    served = False
                    err = type(e).__name__
                tables._fresh_native_state()
                if served == adv:
                    ck.discharged += 1
                else:
                    gate_c.append(("gate %s %d %r" % (ename, n, name), dict(kind="gate", entry=ename, n=n, conn=name),
                                   "%s(%d, %r): %s, but the pair is %s" % (ename, n, name, "served" if served else "rejected with " + str(err), "advertised" if adv else "NOT advertised")))
    ck.count("configuration-gate", paths=len(eps) * 10 * len(uni), sig=["%s:%d:%s" % (e, n, c) for e in eps for n in range(-1, 9) for c in uni])
    ck.candidates(gate_c[:20])
    ck.sample("gate", dict(entry_points=sorted(eps), names=uni))
    return ck.finish()


def _dispatch(job):
    return {"v": _validate_job, "e": _e2e_job, "p": _perturb_job}[job[0]](job[1])


# ------------------------------------------------------------------------------------------------ replay
def replay(case):
    from htstabilizer.stabilizer import Stabilizer
    from .. import dense
    kind = case["kind"]
    if kind == "gate":
        if case["entry"] == "get_available_connectivities":
            from htstabilizer import connectivity_support as cs
            return sorted(cs.get_available_connectivities()) != sorted(ADVERTISED), "list differs"
        f = _entry_points()[case["entry"]]
        adv = (case["n"], case["conn"]) in ADVERTISED
        try:
            f(case["n"], case["conn"])
            served = True
        except Exception as e:
            served = False
        return served != adv, "%s(%d,%r) %s; advertised: %s" % (case["entry"], case["n"], case["conn"], "served" if served else "rejected", adv)
    n = case["n"]
    R = np.array(case["R"], dtype=np.int8)
    S = np.array(case["S"], dtype=np.int8)
    ph = np.array(case["phases"], dtype=np.int8)
    # brute-force validity: commuting and independent
    cols = [(tuple(R[:, j]), tuple(S[:, j])) for j in range(n)]
    comm = all(sum(a[0][k] * b[1][k] + a[1][k] * b[0][k] for k in range(n)) % 2 == 0 for a in cols for b in cols)
    span = set()
    for a in range(2 ** n):
        x = [0] * n
        z = [0] * n
        for j in range(n):
            if (a >> j) & 1:
                x = [x[k] ^ int(R[k, j]) for k in range(n)]
                z = [z[k] ^ int(S[k, j]) for k in range(n)]
        span.add((tuple(x), tuple(z)))
    valid = comm and len(span) == 2 ** n
    s = Stabilizer((R.copy(), S.copy(), ph.copy()))
    if kind == "validate":
        try:
            got = bool(s.validate())
        except Exception as e:
            return True, "validate() raised %r" % (e,)
        return got != valid, "validate() says %s; brute force (commuting %s, %d distinct products) says %s" % (got, comm, len(span), valid)
    from htstabilizer.stabilizer_circuits import get_preparation_circuit, get_readout_circuit
    labels = [("-" if ph[j] else "+") + "".join("IXZY"[int(R[q, j]) + 2 * int(S[q, j])] for q in range(n)) for j in range(n)]
    try:
        qc = get_preparation_circuit(s, case["conn"]) if case["api"] == "prep" else get_readout_circuit(s, case["conn"])
    except Exception as e:
        return valid, "raised %r on a %s input %s" % (e, "valid" if valid else "invalid", labels)
    gates = dense.gates_of(qc)
    if case["api"] == "prep":
        if not valid:
            return True, "a preparation circuit was returned for the non-stabilizer %s" % labels
        psi = dense.run(n, gates)
        for lab in labels:
            if abs(dense.expectation(psi, n, lab) - 1) > 1e-9:
                return True, "<%s> = %.2f on the returned circuit's output" % (lab, dense.expectation(psi, n, lab))
        return False, "ok"
    U = np.zeros((2 ** n, 2 ** n), dtype=complex)
    for b in range(2 ** n):
        e = np.zeros(2 ** n, dtype=complex)
        e[b] = 1
        U[:, b] = dense.run(n, gates, e)
    for lab in labels:
        M = U @ dense.pauli_matrix(lab[1:]) @ U.conj().T
        if np.abs(M - np.diag(np.diag(M))).max() > 1e-9:
            return True, "returned readout circuit does not diagonalise %s" % lab
    return False, "ok"
