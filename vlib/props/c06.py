"""C06 - the class id is a complete invariant of local-Clifford equivalence.
 L  : real classifier on L|G> with ALL 4n layer bits symbolic (6^n layers in one exploration) for the representative
      graph and the table graphs of every class, also under seeded basis changes; signs poisoned.
 F3 : n=2,3: real classifier on a fully symbolic valid tableau (every group, every basis); obligation: the input is
      LC-equivalent to the representative of the returned id (exists-layer expanded over all 6^n layers).
 T  : every graph on n vertices is LC-equivalent to the representative of the id it receives (exists-layer certificate).
 S  : the K representatives are pairwise inequivalent (one unsat query per class against a symbolic target).
 R  : ids are 0..K-1, rebuild(id).id() == id.
 L3 : the classifier reads the stabilizer only through num_qubits / is_qubit_entangled / expand (AST scan + dynamic)."""
import ast, itertools, os, random, time
import numpy as np
from .. import harness, loader, tables, lcq, spec, core, symnp
from ..core import Ctx, explore, var, land, lxor, land_all, lor_all, evaluate
from ..coupling_spec import NCLASSES, ADVERTISED

PID = "C06"
_G = {}


def _class_graphs(n, cid, tier, seed):
    """distinct graphs associated with class cid: representative + table graphs of all configurations"""
    gs = [tables.rep_graph(n, cid)]
    for (nn, conn) in ADVERTISED:
        if nn == n:
            a = tables.entries(n, conn)[cid]["adj"]
            if a not in gs:
                gs.append(a)
    if tier == "quick" and len(gs) > 2:
        rnd = random.Random(seed * 1000003 + cid)
        gs = [gs[0]] + rnd.sample(gs[1:], 1 if n == 6 else 2)
    return gs


def _L_job(job):
    n, cid, tier, seed = job
    lc = loader.sym("lc_classes")
    st = loader.sym("stabilizer")
    res = core.Result()
    cands = []
    rnd = random.Random(seed * 7919 + cid * 31 + n)
    variants = []
    for adj in _class_graphs(n, cid, tier, seed):
        variants.append((adj, None))
    # seeded basis changes of the representative (generators never matter)
    nb = 1 if tier == "quick" else (3 if n <= 5 else 5)
    for _ in range(nb):
        variants.append((variants[0][0], spec.random_invertible(n, rnd)))
    if tier == "thorough" and n <= 5:
        # every elementary generator change of the canonical basis: swap two generators, multiply one into another
        for i in range(n):
            for j in range(n):
                if i == j:
                    continue
                T = [[1 if a == b else 0 for b in range(n)] for a in range(n)]
                T[i][j] = 1
                variants.append((variants[0][0], T))
                if i < j:
                    P = [[1 if a == b else 0 for b in range(n)] for a in range(n)]
                    P[i][i] = P[j][j] = 0
                    P[i][j] = P[j][i] = 1
                    variants.append((variants[0][0], P))
    for adj, B in variants:
        def fn():
            ctx = Ctx.cur
            L, cons = lcq.layer_vars(n, "l")
            for c in cons:
                ctx.assume(c)
            X, Z = spec.layered_graph_tableau(adj, L)
            if B is not None:
                X, Z = spec.change_basis(X, Z, B)
            R, S = spec.to_symarrays(X, Z)
            s = spec.make_stabilizer(st, R, S, poison_phases=True)
            stable = True
            try:
                cobj = lc.determine_lc_class(s)
                g1 = np.asarray(cobj.get_graph().adjacency_matrix).tolist()
                got = cobj.id()
                str(cobj)
                cobj == cobj
                stable = (np.asarray(cobj.get_graph().adjacency_matrix).tolist() == g1) and cobj.id() == got
            except (AssertionError, IndexError, KeyError, ValueError, TypeError) as e:
                got = "exception %s" % type(e).__name__
            ctx.prove("class-id-invariant", 1 if got == cid else 0, info=dict(got=str(got)))
            ctx.prove("id()/str()/== do not change the class object returned by the classifier (same representative graph before and after)", 1 if stable else 0, info=dict(got="%s (object changed by id())" % got))
            return {"id": str(got)}
        r = explore(fn)
        for v in r.violations:
            env = v["model"]
            L, _ = lcq.layer_vars(n, "l")
            layer = [[int(evaluate(l, env)) for l in L[q]] for q in range(n)]
            cands.append(dict(kind="L", n=n, cls=cid, adj=adj, layer=layer, B=B, got=v["info"]["got"]))
        r.violations = []
        res.merge(r)
    res.leaves = res.leaves[:1]
    return dict(res=res.to_json(), cands=cands, variants=len(variants))


def _F3_job(n):
    lc = loader.sym("lc_classes")
    st = loader.sym("stabilizer")
    K = NCLASSES[n]
    reps = [tables.rep_graph(n, c) for c in range(K)]
    cands = []

    def fn():
        ctx = Ctx.cur
        X, Z = spec.sym_tableau(n)
        ctx.assume(spec.valid(X, Z))
        R, S = spec.to_symarrays(X, Z)
        s = spec.make_stabilizer(st, R, S, poison_phases=True)
        try:
            got = lc.determine_lc_class(s).id()
        except AssertionError:
            got = -1
        if isinstance(got, int) and 0 <= got < K:
            ob = spec.in_group_some_layer(reps[got], X, Z)
        else:
            ob = 0
        ctx.prove("input LC-equivalent to representative of returned id", ob, info=dict(got=got))
        return {"id": got}
    r = explore(fn)
    for v in r.violations:
        X, Z = spec.sym_tableau(n)
        Rm, Sm = spec.env_tableau(X, Z, v["model"])
        cands.append(dict(kind="F3", n=n, R=Rm, S=Sm, got=v["info"]["got"]))
    r.violations = []
    # reachability twin: the same harness with obligation False must be violated
    def twin():
        ctx = Ctx.cur
        X, Z = spec.sym_tableau(n)
        ctx.assume(spec.valid(X, Z))
        ctx.prove("twin", 0)
        return None
    tw = explore(twin, max_paths=2)
    return dict(res=r.to_json(), cands=cands, twin=bool(tw.violations))


def _T_job(job):
    n, gids = job
    lc = loader.native("lc_classes")
    stn = loader.native("stabilizer")
    gr = loader.native("graph")
    q = lcq.Q()
    K = NCLASSES[n]
    reps = _G.setdefault(("reps", n), [tables.rep_graph(n, c) for c in range(K)])
    bad = []
    ids = {}
    for gid in gids:
        adj = tables.adj_of_id(n, gid)
        try:
            d = lc.determine_lc_class(stn.Stabilizer(gr.Graph(np.array(adj, dtype=np.int8)))).id()
        except BaseException as e:
            bad.append(dict(kind="T", n=n, gid=gid, why="classifier raised %r" % (e,)))
            continue
        if not (isinstance(d, (int, np.integer)) and 0 <= d < K):
            bad.append(dict(kind="T", n=n, gid=gid, why="id %r outside 0..%d" % (d, K - 1)))
            continue
        ids[int(d)] = ids.get(int(d), 0) + 1
        r, layer = lcq.lc_equivalent(q, adj, reps[d])
        if r == "unsat":
            bad.append(dict(kind="T", n=n, gid=gid, got=int(d), why="graph is not LC-equivalent to the representative of its id"))
        elif r != "sat":
            bad.append(dict(kind="unknown", n=n, gid=gid))
    return dict(bad=bad, q=dict(n=q.n, t=q.t, verdicts=q.verdicts), ids=ids, count=len(gids))


def _S_job(job):
    n, c = job
    K = NCLASSES[n]
    reps = _G.setdefault(("reps", n), [tables.rep_graph(n, k) for k in range(K)])
    q = lcq.Q()
    X, Z = lcq.graph_tab(reps[c])
    M, mc = lcq.layer_vars(n, "m")
    X3, Z3 = lcq.apply_layer(M, X, Z)
    e = [[0] * n for _ in range(n)]
    for i in range(n):
        for j in range(i + 1, n):
            e[i][j] = e[j][i] = var("g%d_%d" % (i, j))
    others = [d for d in range(K) if d != c]
    target = lor_all([land_all([e[i][j] if reps[d][i][j] else e[i][j] ^ 1 for i in range(n) for j in range(i + 1, n)]) for d in others])
    r, env = q.check(mc + [target] + lcq.in_graph_group(e, X3, Z3), want_model=True)
    out = dict(c=c, verdict=r, t=q.t)
    if r == "sat":
        gb = [[int(evaluate(e[i][j], env)) if i != j else 0 for j in range(n)] for i in range(n)]
        out["d"] = next(d for d in others if reps[d] == gb)
    return out


def _l3_scan():
    """the classifier functions use their `stabilizer` argument only as .num_qubits / .is_qubit_entangled / .expand"""
    src = open(os.path.join(loader.PKG_DIR, "lc_classes.py")).read()
    tree = ast.parse(src)
    allowed = {"num_qubits", "is_qubit_entangled", "expand"}
    problems = []
    seen = 0
    for node in ast.walk(tree):
        if isinstance(node, ast.FunctionDef) and node.name.startswith("determine_lc_class"):
            attr_nodes = set()
            for sub in ast.walk(node):
                if isinstance(sub, ast.Attribute) and isinstance(sub.value, ast.Name) and sub.value.id == "stabilizer":
                    attr_nodes.add(id(sub.value))
                    seen += 1
                    if sub.attr not in allowed:
                        problems.append("%s reads stabilizer.%s" % (node.name, sub.attr))
            for sub in ast.walk(node):
                if isinstance(sub, ast.Name) and sub.id == "stabilizer" and id(sub) not in attr_nodes:
                    # passing the object on is fine only to another determine_lc_class* function
                    problems.append("%s uses the stabilizer object other than through an attribute (line %d)" % (node.name, sub.lineno))
    return seen, problems


def run(tier, seed):
    ck = harness.Check(PID, tier, seed)
    ck.encode("lc_classes.determine_lc_class", "lc_classes.determine_lc_class2..6", "lc_classes.count_identity_structures",
              "lc_classes.LCClassN.id/_from_id/get_graph", "stabilizer.Stabilizer.is_qubit_entangled", "stabilizer.Stabilizer.expand",
              "linear_index.*")
    ck.bounds += ["L: every class id of n=2..6, representative graph + table graphs (quick: representative + seeded 1-2 table graphs; thorough: all distinct), ALL 6^n local-Clifford layers per graph symbolically; seeded invertible basis changes (quick 1 per class; thorough 3-5 per class plus, for n<=5, every elementary generator swap / product)",
                  "F3: n=2,3 every valid tableau (all groups x all bases), signs poisoned",
                  "T: all graphs on n<=5 vertices (quick: + seeded 3000 six-vertex graphs; thorough: all 32768)",
                  "S: all K representatives, each against all others in one query"]
    ck.outside += ["n>=4: arbitrary generator bases combined with arbitrary layers (lifted by lemmas L1-L3, see DESIGN.md §5)",
                   "every stabilizer state is LC-equivalent to a graph state (Van den Nest et al. 2004, pen and paper)"]
    ck.lemmas += ["L3 (classifier reads only num_qubits/is_qubit_entangled/expand): AST scan + attribute-poisoned object on this run",
                  "L1/L2 are discharged in C15"]
    # ---- R
    for n in range(2, 7):
        cls = tables.class_of(n)
        K = NCLASSES[n]
        ck.obligations += 1
        if cls.count() == K:
            ck.discharged += 1
        else:
            ck.candidate("count n=%d" % n, dict(kind="R", n=n, cid=-1), "LCClass%d.count() = %d, expected %d" % (n, cls.count(), K))
        for cid in range(K):
            ck.obligations += 1
            try:
                back = cls(cid).id()
            except Exception as e:
                back = "exception %r" % (e,)
            if back == cid:
                ck.discharged += 1
            else:
                ck.candidate("roundtrip n=%d id=%d" % (n, cid), dict(kind="R", n=n, cid=cid), "LCClass%d(%d).id() = %s" % (n, cid, back))
        ck.count("R:n=%d" % n, paths=K, sig=["R%d:%d" % (n, c) for c in range(K)])
    # ---- L3
    seen, problems = _l3_scan()
    ck.obligations += 1
    if seen >= 5 and not problems:
        ck.discharged += 1
    else:
        ck.discharged += 1      # not a violation of the property: the lift is dropped instead (DESIGN.md §5)
        ck.lemmas.append("L3 static scan could NOT establish the access pattern (%s): the lemma lift for arbitrary bases is dropped on this run" % problems[:3])
        ck.outside.append("generator-basis invariance for n>=4 (L3 not established on this tree)")
    # ---- F3
    for n, r in harness.pmap(_F3_job, [2, 3]):
        res = core.Result.from_json(r["res"])
        ck.add("F3:n=%d" % n, res)
        ck.vacuity_twin("F3 n=%d" % n, r["twin"])
        for c in r["cands"]:
            ck.candidate("F3 n=%d R=%s S=%s" % (n, c["R"], c["S"]), c, "valid %d-qubit stabilizer R=%s S=%s is filed under id %s whose representative is not LC-equivalent to it" % (n, c["R"], c["S"], c["got"]))
    # ---- L
    jobs = [(n, cid, tier, seed) for n in range(2, 7) for cid in range(NCLASSES[n])]
    jobs.sort(key=lambda j: -j[0])
    cands = []
    nvar = 0
    for job, r in harness.pmap(_L_job, jobs):
        res = core.Result.from_json(r["res"])
        ck.add("L:n=%d" % job[0], res, sample=0)
        nvar += r["variants"]
        if job[1] in (1, NCLASSES[job[0]] - 1) and res.leaves:
            ck.sample("L", dict(n=job[0], cls=job[1], graphs_and_bases=r["variants"], paths=res.paths, uniqueness_queries=res.unique))
        for c in r["cands"]:
            cands.append(("L n=%d class=%d layer=%s adj=%s B=%s" % (c["n"], c["cls"], c["layer"], tables_gid(c["adj"]), c["B"]), c,
                          "class %d of n=%d: layer %s applied to graph %s (basis change %s) is filed under %s" % (c["cls"], c["n"], c["layer"], tables_gid(c["adj"]), c["B"], c["got"])))
    ck.extra["L_variants"] = nvar
    ck.candidates(cands[:50])
    # ---- T
    rnd = random.Random(seed)
    tjobs = []
    for n in range(2, 7):
        total = 2 ** (n * (n - 1) // 2)
        if n < 6 or tier == "thorough":
            gids = list(range(total))
        else:
            gids = sorted(rnd.sample(range(total), 3000))
        chunk = max(1, len(gids) // 64)
        for i in range(0, len(gids), chunk):
            tjobs.append((n, gids[i:i + chunk]))
    idsets = {n: {} for n in range(2, 7)}
    tc = []
    for job, r in harness.pmap(_T_job, tjobs):
        n = job[0]
        ck.count("T:n=%d" % n, n_queries=r["q"]["n"], solver_s=r["q"]["t"], obligations=r["count"], discharged=r["count"] - len(r["bad"]),
                 verdicts=r["q"]["verdicts"], sig=["T%d:%d" % (n, g) for g in job[1]])
        for k, v in r["ids"].items():
            idsets[n][int(k)] = idsets[n].get(int(k), 0) + v
        for b in r["bad"]:
            if b["kind"] == "unknown":
                ck.harness_error("T: solver unknown n=%d gid=%d" % (b["n"], b["gid"]))
            else:
                tc.append(("T n=%d graph=%d" % (b["n"], b["gid"]), b, "graph %d on %d vertices: %s" % (b["gid"], b["n"], b["why"])))
    ck.candidates(tc[:50])
    for n in range(2, 7):
        if n < 6 or tier == "thorough":
            ck.obligations += 1
            if sorted(idsets[n]) == list(range(NCLASSES[n])):
                ck.discharged += 1
            else:
                ck.candidate("T ids n=%d" % n, dict(kind="Tids", n=n), "ids in use for n=%d are not exactly 0..%d" % (n, NCLASSES[n] - 1))
    ck.extra["orbit_sizes_sample"] = {str(n): dict(list(sorted(idsets[n].items()))[:6]) for n in (4, 5)}
    # ---- S
    sjobs = [(n, c) for n in range(2, 7) for c in range(NCLASSES[n])]
    sc = []
    for job, r in harness.pmap(_S_job, sjobs):
        n, c = job
        v = {r["verdict"]: 1}
        ck.count("S:n=%d" % n, n_queries=1, solver_s=r["t"], obligations=1, discharged=1 if r["verdict"] == "unsat" else 0, verdicts=v,
                 sig="S%d:%d" % (n, c))
        if r["verdict"] == "sat":
            sc.append(("S n=%d %d~%d" % (n, c, r["d"]), dict(kind="S", n=n, c=c, d=r["d"]), "representatives of classes %d and %d (n=%d) are LC-equivalent" % (c, r["d"], n)))
        elif r["verdict"] != "unsat":
            ck.harness_error("S: solver unknown n=%d c=%d" % (n, c))
    ck.candidates(sc[:20])
    # vacuity twin for S: a representative IS equivalent to a local complement of itself
    q = lcq.Q()
    g = tables.rep_graph(4, 17)
    gr = loader.native("graph")
    h = gr.Graph(np.array(g, dtype=np.int8)).local_complemented(1).adjacency_matrix.tolist()
    r, _ = lcq.lc_equivalent(q, g, h)
    ck.vacuity_twin("S/T equivalence query is satisfiable for a local complement", r == "sat")
    return ck.finish()


def tables_gid(adj):
    n = len(adj)
    gid = 0
    for i in range(n):
        for j in range(i + 1, n):
            if adj[i][j]:
                gid |= 1 << (i * n - i * (i + 1) // 2 + (j - i - 1))
    return gid


# ------------------------------------------------------------------------------------------------ replay
def _lc_equiv_bruteforce(XR, ZS, adj):
    """plain python: exists layer in 6^n mapping all columns of (XR, ZS) into group(adj)"""
    n = len(XR)
    m = len(XR[0])
    for combo in itertools.product(spec.SIX, repeat=n):
        ok = True
        for g in range(m):
            xs = [(combo[q][0] * XR[q][g] + combo[q][1] * ZS[q][g]) % 2 for q in range(n)]
            zs = [(combo[q][2] * XR[q][g] + combo[q][3] * ZS[q][g]) % 2 for q in range(n)]
            for i in range(n):
                s = 0
                for j in range(n):
                    if i != j:
                        s ^= adj[i][j] & xs[j]
                if s != zs[i]:
                    ok = False
                    break
            if not ok:
                break
        if ok:
            return True
    return False


def replay(case):
    from htstabilizer import lc_classes
    from htstabilizer.stabilizer import Stabilizer
    from htstabilizer.graph import Graph
    kind, n = case["kind"], case["n"]
    cls = lc_classes.__dict__["LCClass%d" % n]
    if kind == "R":
        if case["cid"] < 0:
            return cls.count() != NCLASSES[n], "count %d" % cls.count()
        try:
            back = cls(case["cid"]).id()
        except Exception as e:
            return True, "raised %r" % (e,)
        return back != case["cid"], "roundtrip gives %r" % (back,)
    if kind in ("L", "F3"):
        if kind == "L":
            adj, layer, B = case["adj"], case["layer"], case["B"]
            R = [[(layer[q][0] * (1 if q == g else 0) + layer[q][1] * adj[q][g]) % 2 for g in range(n)] for q in range(n)]
            S = [[(layer[q][2] * (1 if q == g else 0) + layer[q][3] * adj[q][g]) % 2 for g in range(n)] for q in range(n)]
            if B is not None:
                R = [[sum(R[q][g] * B[g][h] for g in range(n)) % 2 for h in range(n)] for q in range(n)]
                S = [[sum(S[q][g] * B[g][h] for g in range(n)) % 2 for h in range(n)] for q in range(n)]
            expected = case["cls"]
        else:
            R, S = case["R"], case["S"]
            expected = None
        try:
            cobj = lc_classes.determine_lc_class(Stabilizer((np.array(R, dtype=np.int8), np.array(S, dtype=np.int8))))
            g1 = cobj.get_graph().adjacency_matrix.tolist()
            got = cobj.id()
            str(cobj)
            cobj == cobj
            if cobj.get_graph().adjacency_matrix.tolist() != g1 or cobj.id() != got:
                return True, "id()/str()/== changed the class object returned by the classifier: its representative graph differs before and after (id %s)" % got
        except BaseException as e:
            return True, "classifier raised %r on a valid stabilizer R=%s S=%s" % (e, R, S)
        if not (0 <= got < NCLASSES[n]):
            return True, "id %r out of range" % (got,)
        rep = cls(int(got)).get_graph().adjacency_matrix.tolist()
        eq = _lc_equiv_bruteforce(R, S, rep)
        if expected is not None and got != expected:
            return True, "native classifier returns %d, expected %d (input LC-equivalent to representative of returned id: %s)" % (got, expected, eq)
        return (not eq), "returned id %d; input LC-equivalent to its representative: %s" % (got, eq)
    if kind == "T":
        adj = tables.adj_of_id(n, case["gid"])
        try:
            got = lc_classes.determine_lc_class(Stabilizer(Graph(np.array(adj, dtype=np.int8)))).id()
        except BaseException as e:
            return True, "classifier raised %r on graph %d" % (e, case["gid"])
        if not (0 <= got < NCLASSES[n]):
            return True, "id %r out of range" % (got,)
        rep = cls(int(got)).get_graph().adjacency_matrix.tolist()
        X = [[1 if i == g else 0 for g in range(n)] for i in range(n)]
        eq = _lc_equiv_bruteforce(X, adj, rep)
        return (not eq), "graph %d gets id %d; LC-equivalent to representative: %s" % (case["gid"], got, eq)
    if kind == "Tids":
        seen = set()
        for gid in range(2 ** (n * (n - 1) // 2)):
            adj = tables.adj_of_id(n, gid)
            seen.add(int(lc_classes.determine_lc_class(Stabilizer(Graph(np.array(adj, dtype=np.int8)))).id()))
        return sorted(seen) != list(range(NCLASSES[n])), "ids in use: %d distinct" % len(seen)
    if kind == "S":
        a = cls(case["c"]).get_graph().adjacency_matrix.tolist()
        b = cls(case["d"]).get_graph().adjacency_matrix.tolist()
        X = [[1 if i == g else 0 for g in range(n)] for i in range(n)]
        return _lc_equiv_bruteforce(X, a, b), "representatives %d and %d" % (case["c"], case["d"])
    return False, "unknown kind"
