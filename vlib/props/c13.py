"""C13 - results are a function of the arguments only: no history or aliasing effects.

One inductive step over the library's cross-call state (DESIGN.md §C13): from a fresh state run op1, then the caller
HAVOCS everything it can reach (returned circuits / lists / dictionaries are mutated in place, argument arrays are
overwritten with fresh symbolic bits unless the object is deliberately reused), then op2.  Obligations, proved per path
by z3 for all inputs of the symbolic family: op2's result satisfies its specification (independent tableau oracle),
is gate-for-gate identical to what op2 returns from a freshly reset library, and no call modified its arguments.
The aliasing part is structural (havoc tokens either show up or not); the solver quantifies over the inputs."""
import copy, itertools, json, os, random, subprocess, sys
import numpy as np
from .. import harness, loader, core, symnp, spec, ztab, tables, pipeline, coupling_spec
from ..core import Ctx, explore, var, land, lxor, lor_all, land_all, leq, mk, evaluate
from ..coupling_spec import ADVERTISED, NCLASSES
from . import c07

PID = "C13"
EXC = pipeline.EXC
OPS = ["prep", "readout", "compress", "mubs", "tomo", "measure"]
ALL_MODULES = pipeline.RESET_MODULES + ("circuit_lookup", "mub_circuits", "tomography")


def _reset_all():
    for m in ALL_MODULES:
        loader.reset_state(m)


def _stab_lits(s, n):
    R, S, ph = np.asarray(s.R), np.asarray(s.S), np.asarray(s.phases)

    def lit(e):
        if isinstance(e, core.SV):
            return e.bits[0] if len(e.bits) == 1 else None
        return int(e) if int(e) in (0, 1) else None
    return [[lit(R[q, g]) for g in range(n)] for q in range(n)], [[lit(S[q, g]) for g in range(n)] for q in range(n)], [lit(ph[j]) for j in range(n)]


def _unchanged(s, n, X, Z, signs):
    Rl, Sl, pl = _stab_lits(s, n)
    flat = [v for row in Rl for v in row] + [v for row in Sl for v in row] + pl
    if any(v is None for v in flat):
        return 0
    return land_all([leq(Rl[q][g], X[q][g]) for q in range(n) for g in range(n)] + [leq(Sl[q][g], Z[q][g]) for q in range(n) for g in range(n)] + [leq(pl[j], signs[j]) for j in range(n)])


def _havoc_circuit(qc):
    from qiskit.circuit import Parameter
    try:
        qc.data.clear()
    except Exception:
        pass
    qc.rz(Parameter("havoc"), 0)
    qc.x(0)
    qc.metadata = {"havoc": True}


def _run_op(op, n, conn, stab, X, Z, signs, graph_gates):
    """-> (comparable value, obligation literal, objects to havoc)"""
    from qiskit import QuantumCircuit
    sc = loader.sym("stabilizer_circuits")
    mc = loader.sym("mub_circuits")
    tm = loader.sym("tomography")

    def prep_ob(gates):
        obs = []
        for j in range(n):
            back = ztab.pull(ztab.P([X[q][j] for q in range(n)], [Z[q][j] for q in range(n)], signs[j]), gates)
            obs.append(land(lor_all(back.x) ^ 1, back.r ^ 1))
        return land_all(obs)

    def readout_ob(gates):
        obs = []
        for j in range(n):
            f = ztab.push(ztab.P([X[q][j] for q in range(n)], [Z[q][j] for q in range(n)], 0), gates)
            obs.append(lor_all(f.x) ^ 1)
        return land_all(obs)
    if op == "prep":
        qc = sc.get_preparation_circuit(stab, conn)
        g = ztab.gates_of(qc)
        return g, prep_ob(g), [qc]
    if op == "readout":
        qc = sc.get_readout_circuit(stab, conn)
        g = ztab.gates_of(qc)
        return g, readout_ob(g), [qc]
    if op == "compress":
        qin = c07.build_circuit(n, graph_gates)
        fp = c07.circuit_fingerprint(qin)
        qc = sc.compress_preparation_circuit(qin, conn)
        g = ztab.gates_of(qc)
        gens = c07.state_generators(n, graph_gates)
        obs = []
        for p in gens:
            back = ztab.pull(p, g)
            obs.append(land(lor_all(back.x) ^ 1, back.r ^ 1))
        same_in = 1 if c07.circuit_fingerprint(qin) == fp else 0
        return g, land(land_all(obs), same_in), [qc, qin]
    if op == "mubs":
        mubs = mc.get_mubs(n, conn)
        circs = mc.get_mub_circuits(n, conn)
        info = mc.get_mub_info(n, conn)
        val = (copy.deepcopy(mubs), [ztab.gates_of(c) for c in circs], dict(info))
        return val, 1, [mubs, circs, info]
    if op == "tomo":
        prep = QuantumCircuit(n)
        circs = tm.full_state_tomography_circuits(prep, conn)
        val = [ztab.gates_of(c, allow_measure=True) for c in circs]
        same_in = 1 if len(prep.data) == 0 else 0
        return val, same_in, [circs, prep]
    if op == "measure":
        prep = QuantumCircuit(n)
        qc = tm.stabilizer_measurement_circuit(prep, stab, conn)
        g = ztab.gates_of(qc, allow_measure=True)
        return g, land(readout_ob(g), 1 if len(prep.data) == 0 else 0), [qc, prep]
    raise KeyError(op)


def _havoc(objs):
    from qiskit import QuantumCircuit
    for o in objs:
        if isinstance(o, QuantumCircuit):
            _havoc_circuit(o)
        elif isinstance(o, list):
            for e in list(o):
                if isinstance(e, QuantumCircuit):
                    _havoc_circuit(e)
                elif isinstance(e, list):
                    e.reverse()
                    if e:
                        e[0] = "#havoc#"
            o.reverse()
            if o:
                o.pop()
        elif isinstance(o, dict):
            for k in list(o):
                o[k] = "#havoc#"
            o["extra"] = 1


def _seq_job(job):
    pj, op1, c1, op2, c2, reuse = job
    n = pj["n"]
    names = pipeline.job_variables(pj)
    core.tt_setup(names) if len(names) <= core.TT_MAX else core.tt_disable()
    st = loader.sym("stabilizer")
    cands = []

    def fn():
        ctx = Ctx.cur
        _reset_all()
        inp = pipeline.build_input(pj, ctx)
        X, Z, signs = inp["X"], inp["Z"], inp["signs"]

        def fresh_stab():
            R, S = spec.to_symarrays(X, Z)
            return spec.make_stabilizer(st, R, S, phases=pipeline._sign_array(signs))
        # the compress input: a circuit preparing the same state is needed -> use the real preparation circuit's gates
        # of a reset library for the realised stabilizer (its correctness is op "prep"'s own obligation)
        s1 = fresh_stab()
        graph_gates = None
        info = {"ops": [op1, op2], "conns": [c1, c2], "reuse": reuse}
        try:
            if "compress" in (op1, op2):
                graph_gates = ztab.gates_of(loader.sym("stabilizer_circuits").get_preparation_circuit(fresh_stab(), c1))
                _reset_all()
            v1, ob1, objs1 = _run_op(op1, n, c1, s1, X, Z, signs, graph_gates)
        except EXC as e:
            ctx.prove("first call (%s, %s) raised %s" % (op1, c1, type(e).__name__), 0, info=info)
            return info
        ctx.prove("first call %s(%s): result meets its specification" % (op1, c1), ob1, info=info)
        ctx.prove("first call %s(%s) does not modify the stabilizer passed in" % (op1, c1), _unchanged(s1, n, X, Z, signs), info=info)
        # ---- caller-side havoc of everything reachable
        _havoc(objs1)
        if not reuse:
            for arr, tag in ((np.asarray(s1.R), "hr"), (np.asarray(s1.S), "hs")):
                for idx in np.ndindex(*arr.shape):
                    arr[idx] = mk((var("%s%d_%d" % ((tag,) + idx)),))
            s2 = fresh_stab()
        else:
            s2 = s1
        try:
            v2, ob2, objs2 = _run_op(op2, n, c2, s2, X, Z, signs, graph_gates)
        except EXC as e:
            ctx.prove("after %s(%s) and caller-side mutation, %s(%s) raised %s" % (op1, c1, op2, c2, type(e).__name__), 0, info=info)
            return info
        ctx.prove("after %s(%s) and caller-side mutation, %s(%s)%s still meets its specification" % (op1, c1, op2, c2, " on the SAME stabilizer object" if reuse else ""), ob2, info=info)
        ctx.prove("second call does not modify the stabilizer passed in", _unchanged(s2, n, X, Z, signs), info=info)
        # ---- the same second call from a freshly reset library must give the identical answer
        _reset_all()
        try:
            v3, _, _ = _run_op(op2, n, c2, fresh_stab(), X, Z, signs, graph_gates)
            same = (json.dumps(v2, sort_keys=True, default=str) == json.dumps(v3, sort_keys=True, default=str))
        except EXC as e:
            same = False
        ctx.prove("%s(%s) after the history equals what a fresh library returns" % (op2, c2), 1 if same else 0, info=info)
        return info
    res = explore(fn, mode="fork")
    for v in res.violations[:2]:
        c = pipeline.concretise_case(pj, v["model"])
        c.update(kind="sequence", ops=[op1, op2], conns=[c1, c2], reuse=reuse, label=v["label"])
        cands.append(c)
    res.violations = []
    res.leaves = res.leaves[:1]
    return dict(res=res.to_json(), cands=cands)


def _hashseed_side_condition():
    """two fresh interpreters with different PYTHONHASHSEED return identical canonical serialisations (concrete)"""
    code = r'''
import json, warnings, sys
warnings.filterwarnings("ignore")
import numpy as np
from htstabilizer.stabilizer import Stabilizer
from htstabilizer.stabilizer_circuits import get_preparation_circuit, get_readout_circuit
from htstabilizer.mub_circuits import get_mubs, get_mub_circuits, get_mub_info
from htstabilizer.graph import Graph
def g(qc): return [(i.operation.name, [qc.find_bit(q).index for q in i.qubits]) for i in qc.data]
out = []
for strs, conn in ((["XZZ","ZXI","ZIX"],"linear"), (["-XZII","ZXZI","IZXZ","IIZX"],"star"), (["YYIII","-ZZIII","IIXZZ","IIZXI","IIZIX"],"T")):
    s = Stabilizer(strs); out.append(g(get_preparation_circuit(s, conn))); out.append(g(get_readout_circuit(s, conn)))
out.append(get_mubs(3, "linear")); out.append([g(c) for c in get_mub_circuits(4, "cycle")]); out.append(get_mub_info(5, "Q"))
print(json.dumps(out, sort_keys=True))
'''
    outs = []
    for seed in ("0", "12345"):
        env = dict(os.environ)
        env["PYTHONHASHSEED"] = seed
        p = subprocess.run([harness.PY, "-c", code], capture_output=True, text=True, env=env, timeout=600)
        outs.append(p.stdout.strip() if p.returncode == 0 else "ERR " + p.stderr[-300:])
    return outs[0] == outs[1] and not outs[0].startswith("ERR"), outs


def run(tier, seed):
    ck = harness.Check(PID, tier, seed, level="other")
    ck.encode("stabilizer_circuits.get_preparation_circuit/get_readout_circuit/compress_preparation_circuit", "mub_circuits.get_mubs/get_mub_circuits/get_mub_info",
              "tomography.full_state_tomography_circuits/stabilizer_measurement_circuit", "circuit_lookup.stabilizer_circuit_lookup/mub_circuit_lookup/MUBInfo.copy (caches)")
    ck.bounds += ["histories: one inductive step (fresh state -> op1 -> caller havoc -> op2), op1, op2 in {prep, readout, compress, mubs(all three getters), tomography circuits, measurement circuit}, the two calls with equal or different connectivities, second call with a fresh equal argument or with the SAME stabilizer object",
                  "stabilizers: n=2 (every valid tableau, seeded op pairs), n=4 every class (symbolic one-qubit window, seeded layer, 2 sign vectors), n=5,6 seeded classes; %s" % ("seeded op/connectivity pairs per class" if tier == "quick" else "all 36 op pairs x seeded connectivity pairs for n=4"),
                  "longer histories follow by induction provided the library's only cross-call state are module-level containers, which the harness resets/inspects generically (pen-and-paper)"]
    ck.outside += ["state hidden outside module-level containers and outside the objects handed to the caller (e.g. in third-party libraries)",
                   "cross-process equality is a concrete side condition (two interpreters, different PYTHONHASHSEED), not a solver claim"]
    ck.extra["explanation"] = ("havoc-based inductive step on the instrumented library; z3 proves the post-history obligations for all inputs of each symbolic family; "
                               "aliasing itself is detected structurally (mutated objects either reappear or not)")
    rnd = random.Random(seed)
    jobs = []
    f2 = [j for j in pipeline.f3_jobs(tier, seed, signs=("affine", 1)) if j["n"] == 2][0]
    for op1, op2 in itertools.product(OPS, OPS):
        if tier == "thorough" or rnd.random() < 0.34:
            jobs.append((f2, op1, "all", op2, "all", rnd.random() < 0.5))
    conf = {n: [c for (nn, c) in ADVERTISED if nn == n] for n in range(2, 7)}
    for n in (4, 5, 6):
        K = NCLASSES[n]
        classes = range(K) if n == 4 else rnd.sample(range(K), 6 if tier == "quick" else 40)
        for cls in classes:
            reps = 4 if (tier == "quick" or n > 4) else 36
            pairs = list(itertools.product(OPS, OPS))
            rnd.shuffle(pairs)
            for (op1, op2) in pairs[:reps]:
                c1, c2 = rnd.choice(conf[n]), rnd.choice(conf[n])
                if rnd.random() < 0.5:
                    c2 = c1
                r2 = random.Random(seed * 977 + cls * 13 + n)
                pj = dict(family="Fc", n=n, conn=c1, cls=cls, adj=tables.rep_graph(n, cls), base_layer=[r2.randrange(6) for _ in range(n)],
                          window=[r2.randrange(n)], B=(spec.random_invertible(n, r2) if r2.random() < 0.5 else None), signs=("affine", 1), seed=seed * 13 + cls)
                jobs.append((pj, op1, c1, op2, c2, rnd.random() < 0.5))
            # the same object with two different connectivities (no caller mutation of it): prep/readout pairs
            if n == 4:
                for (op1, op2) in (("readout", "readout"), ("prep", "readout")):
                    c1, c2 = rnd.sample(conf[n], 2)
                    r2 = random.Random(seed * 977 + cls * 13 + n)
                    pj = dict(family="Fc", n=n, conn=c1, cls=cls, adj=tables.rep_graph(n, cls), base_layer=[r2.randrange(6) for _ in range(n)],
                              window=[r2.randrange(n)], B=None, signs=("affine", 1), seed=seed * 13 + cls)
                    jobs.append((pj, op1, c1, op2, c2, True))
    cands = []
    for job, r in harness.pmap(_seq_job, jobs, progress=200):
        res = core.Result.from_json(r["res"])
        ck.add("n=%d %s->%s" % (job[0]["n"], job[1], job[3]), res, sample=1 if job[0]["n"] == 4 and job[0].get("cls") == 17 else 0)
        for c in r["cands"]:
            cands.append(("seq n=%d %s(%s)->%s(%s) reuse=%s cls=%s %s" % (c["n"], c["ops"][0], c["conns"][0], c["ops"][1], c["conns"][1], c["reuse"], c.get("cls"), c["label"][:40]), c,
                          "n=%d class %s: %s" % (c["n"], c.get("cls"), c["label"])))
    seen = set()
    ck.candidates([c for c in cands if not (c[0] in seen or seen.add(c[0]))][:20])
    ok, outs = _hashseed_side_condition()
    ck.obligations += 1
    if ok:
        ck.discharged += 1
    else:
        ck.candidate("hashseed", dict(kind="hashseed"), "results differ between two interpreters with different PYTHONHASHSEED")
    return ck.finish()


# ------------------------------------------------------------------------------------------------ replay
def replay(case):
    if case.get("kind") == "hashseed":
        ok, outs = _hashseed_side_condition()
        return (not ok), "hash-seed comparison"
    from qiskit import QuantumCircuit
    from .. import dense
    from htstabilizer.stabilizer import Stabilizer
    from htstabilizer import stabilizer_circuits as sc, mub_circuits as mc, tomography as tm
    n = case["n"]
    R, S, ph = np.array(case["R"], dtype=np.int8), np.array(case["S"], dtype=np.int8), np.array(case["phases"], dtype=np.int8)
    labels = [("-" if ph[j] else "+") + "".join("IXZY"[int(R[q, j]) + 2 * int(S[q, j])] for q in range(n)) for j in range(n)]
    (op1, op2), (c1, c2), reuse = case["ops"], case["conns"], case["reuse"]

    def fresh():
        return Stabilizer((R.copy(), S.copy(), ph.copy()))
    base_gates = None
    if "compress" in (op1, op2):
        # an independent circuit for the same state: synthesise from the dense stabilizer is overkill; use qiskit's
        from htstabilizer.rotate_stabilizer_into_state import synth_circuit_from_stabilizers
        base_gates = dense.gates_of(synth_circuit_from_stabilizers(fresh().to_list(qiskit_convention=True)))

    def run(op, conn, s):
        if op == "prep":
            qc = sc.get_preparation_circuit(s, conn)
            return qc, [qc]
        if op == "readout":
            qc = sc.get_readout_circuit(s, conn)
            return qc, [qc]
        if op == "compress":
            qin = QuantumCircuit(n)
            for g, q in base_gates:
                getattr(qin, g)(*q)
            qc = sc.compress_preparation_circuit(qin, conn)
            return qc, [qc, qin]
        if op == "mubs":
            a, b, c = mc.get_mubs(n, conn), mc.get_mub_circuits(n, conn), mc.get_mub_info(n, conn)
            return (a, b, c), [a, b, c]
        if op == "tomo":
            prep = QuantumCircuit(n)
            circs = tm.full_state_tomography_circuits(prep, conn)
            return circs, [circs, prep]
        if op == "measure":
            prep = QuantumCircuit(n)
            qc = tm.stabilizer_measurement_circuit(prep, s, conn)
            return qc, [qc, prep]

    def check(op, conn, val):
        """-> problem string or None (independent dense oracle / raw data files)"""
        if op in ("prep", "compress"):
            psi = dense.run(n, dense.gates_of(val))
            for lab in labels:
                if abs(dense.expectation(psi, n, lab) - 1) > 1e-9:
                    return "<%s> = %.2f on the circuit returned by %s(%s)" % (lab, dense.expectation(psi, n, lab), op, conn)
            return None
        if op in ("readout", "measure"):
            gates = dense.gates_of(val)
            U = np.zeros((2 ** n, 2 ** n), dtype=complex)
            for b in range(2 ** n):
                e = np.zeros(2 ** n, dtype=complex)
                e[b] = 1
                U[:, b] = dense.run(n, gates, e)
            for lab in labels:
                M = U @ dense.pauli_matrix(lab[1:]) @ U.conj().T
                if np.abs(M - np.diag(np.diag(M))).max() > 1e-9:
                    return "%s(%s) does not diagonalise %s" % (op, conn, lab)
            return None
        raw = [l for l in tables.raw_lines("mub%d-%s.txt" % (n, conn)) if l][1:]
        want_m = [l.split(":")[0].split(",") for l in raw]
        want_c = [[(g, list(q)) for g, q in tables.tokenize(l.split(":")[1])[0]] for l in raw]
        if op == "mubs":
            a, b, c = val
            if a != want_m or [dense.gates_of(x) for x in b] != want_c:
                return "get_mubs/get_mub_circuits(%d,%s) differ from the data file" % (n, conn)
            return None
        if op == "tomo":
            if [dense.gates_of(x) for x in val] != want_c:
                return "tomography circuits (%d,%s) differ from the MUB circuits of the data file" % (n, conn)
            return None
    try:
        s1 = fresh()
        v1, objs = run(op1, c1, s1)
        _havoc(objs)
        if not reuse:
            s1.R[:] = 1 - s1.R
            s1.S[:] = 1
            s2 = fresh()
        else:
            s2 = s1
            if not (np.array_equal(s1.R, R) and np.array_equal(s1.S, S) and np.array_equal(s1.phases, ph)):
                return True, "%s(%s) modified the stabilizer passed in" % (op1, c1)
        v2, objs2 = run(op2, c2, s2)
    except Exception as e:
        return True, "sequence %s(%s) -> mutate -> %s(%s) raised %r" % (op1, c1, op2, c2, e)
    prob = check(op2, c2, v2)
    if prob:
        return True, "after %s(%s) and caller-side mutation%s: %s" % (op1, c1, " (same Stabilizer object reused)" if reuse else "", prob)
    if not (np.array_equal(s2.R, R) and np.array_equal(s2.S, S) and np.array_equal(s2.phases, ph)):
        return True, "%s(%s) modified the stabilizer passed in" % (op2, c2)
    return False, "second result correct"
