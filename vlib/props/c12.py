"""C12 - stabilizer measurement reports the true, correctly signed expectation values (symbolic state)."""
import random
import numpy as np
from .. import harness, loader, core, spec, ztab, tables, pipeline
from ..core import Ctx, explore, var, evaluate
from ..coupling_spec import ADVERTISED, NCLASSES
from . import _tomoprop, _tomoreplay

PID = "C12"
replay = _tomoreplay.replay


def _job(job):
    """family: F3 (n=2: every valid tableau and sign vector, realised) or Fc (class graph, seeded layer/basis, window symbolic)"""
    pj = job
    n, conn = pj["n"], pj["conn"]
    names = pipeline.job_variables(pj)
    core.tt_setup(names) if len(names) <= core.TT_MAX else core.tt_disable()
    pr = _tomoprop.Prover()
    cands = []
    stats = dict(pairs=0)

    def fn():
        ctx = Ctx.cur
        inp = pipeline.build_input(pj, ctx)
        X, Z, signs = inp["X"], inp["Z"], inp["signs"]
        # the stabilizer is realised (the circuit builder needs concrete operators); the STATE stays symbolic
        R = [[int(core.mk((X[q][g],))) for g in range(n)] for q in range(n)]
        S = [[int(core.mk((Z[q][g],))) for g in range(n)] for q in range(n)]
        ph = [int(core.mk((s,))) for s in signs]
        problems, st = _tomoprop.stabilizer_measurement(n, conn, None, R, S, ph, pr, with_density=(n <= 3))
        stats["pairs"] += st.get("pairs", 0)
        ctx.prove("stabilizer measurement of R=%s S=%s signs=%s: %s" % (R, S, ph, problems[:1]), 0 if problems else 1, info=dict(R=R, S=S, phases=ph))
        return {"R": R, "S": S, "ph": ph}
    res = explore(fn, mode="fork")
    for v in res.violations[:3]:
        i = v["info"]
        cands.append(dict(kind="tomo", which="stabilizer", N=n, conn=conn, mq=None, R=i["R"], S=i["S"], phases=i["phases"], label=v["label"]))
    res.violations = []
    res.leaves = res.leaves[:1]
    return dict(res=res.to_json(), cands=cands)


def run(tier, seed):
    ck = harness.Check(PID, tier, seed)
    ck.encode("tomography.stabilizer_measurement_circuit", "tomography.StabilizerMeasurementFitter.expectation_values/density_matrix", "tomography.CircuitResult",
              "tomography._compute_expectation_value", "tomography.z_pauli_from_bitstring", "stabilizer_circuits.get_readout_circuit")
    ck.bounds += ["the state is symbolic (4^n real unknowns); the stabilizer: n=2 every valid tableau x sign vector; n=3 seeded partitions; n=4..6 class-graph families (symbolic one-qubit window, seeded layer/basis, 2-4 sign vectors): all classes for n=4, structure representatives + seeded classes for n=5,6; plus EVERY class of EVERY configuration once (quick: a seeded fifth of the 6-qubit classes)",
                  "per stabilizer: exactly 2^n keys = unsigned group elements, every value == r_P with the true sign (LRA validity)"]
    ck.outside += ["floating point", "measured-qubit lists (C11)"]
    ck.validated += ztab.validate_against_qiskit(seed=seed, trials=100)
    rnd = random.Random(seed)
    jobs = [j for j in pipeline.f3_jobs(tier, seed, signs="all") if j["n"] == 2]
    f3 = [j for j in pipeline.f3_jobs(tier, seed, signs=("affine", 1)) if j["n"] == 3]
    jobs += f3[:4] if tier == "quick" else f3[:40]
    for j in pipeline.fc_jobs(tier, seed, signs_quick=("affine", 1), signs_thorough=("affine", 2)):
        if tier == "quick" and j["n"] >= 5 and rnd.random() < 0.8:
            continue
        j = dict(j)
        j["window"] = j["window"][:1]
        jobs.append(j)
    # every class of every configuration (table graph, seeded layer / basis / one sign vector); quick: a seeded third of n=6
    for j in pipeline.fc0_jobs("quick", seed, signs=("affine", 0)):
        if j["n"] == 6 and tier == "quick" and (j["cls"] + seed) % 5 != 0:
            continue
        jobs.append(j)
    cands = []
    for job, r in harness.pmap(_job, jobs, progress=200):
        res = core.Result.from_json(r["res"])
        ck.add("%s %d-%s" % (job["family"], job["n"], job["conn"]), res, sample=1 if job["family"] == "F3" and job["n"] == 2 else 0)
        for c in r["cands"]:
            cands.append(("stab %d-%s R=%s S=%s ph=%s" % (c["N"], c["conn"], c["R"], c["S"], c["phases"]), c, c["label"]))
    seen = set()
    ck.candidates([c for c in cands if not (c[0] in seen or seen.add(c[0]))][:20])
    return ck.finish()
