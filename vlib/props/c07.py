"""C07 - circuit compression preserves the prepared state (real compress_preparation_circuit on symbolic gate
programs whose choices are realised by the solver; obligations by the independent tableau oracle)."""
import copy, itertools, random
import numpy as np
from .. import harness, loader, core, spec, lcq, ztab, tables, circmetrics, coupling_spec, pipeline
from ..core import Ctx, explore, var, land, lxor, lor_all, land_all, lxor_all, leq, mk
from ..coupling_spec import ADVERTISED, NCLASSES

PID = "C07"
ONEQ = ["id", "x", "y", "z", "h", "s", "sdg"]
TWOQ = ["cx", "cz", "swap"]
WORDS = {0: [], 1: ["h"], 2: ["s"], 3: ["s", "h"], 4: ["h", "s"], 5: ["h", "s", "h"]}
EXC = pipeline.EXC


def alphabet(n):
    a = [(g, [q]) for g in ONEQ for q in range(n)]
    a += [(g, [p, q]) for g in TWOQ for p in range(n) for q in range(n) if p != q]
    return a


def build_circuit(n, gates):
    from qiskit import QuantumCircuit
    qc = QuantumCircuit(n)
    for g, qs in gates:
        getattr(qc, g)(*qs)
    return qc


def circuit_fingerprint(qc):
    return (qc.num_qubits, qc.num_clbits, repr(qc.global_phase), copy.deepcopy(qc.metadata), qc.name,
            [(i.operation.name, tuple(i.operation.params), tuple(qc.find_bit(q).index for q in i.qubits)) for i in qc.data])


def state_generators(n, gates):
    """signed stabilizer generators of gates|0..0> (ztab push of +Z_j)"""
    return [ztab.push(ztab.P.Z(n, j), gates) for j in range(n)]


def check_leaf(ctx, n, conn, gates, cls, history=True, want_cost=True):
    """run the instrumented compress on the concrete program `gates` and state all C07 obligations"""
    sc = loader.sym("stabilizer_circuits")
    for m in pipeline.RESET_MODULES:
        loader.reset_state(m)
    qc_in = build_circuit(n, gates)
    fp = circuit_fingerprint(qc_in)
    info = {"len": len(gates)}
    try:
        out = sc.compress_preparation_circuit(qc_in, conn)
    except EXC as e:
        ctx.prove("compress must serve every Clifford circuit (%s: %s)" % (type(e).__name__, str(e)[:60]), 0, info=dict(step=1))
        return info
    og = ztab.gates_of(out)
    gens = state_generators(n, gates)

    def same_state(ogates, gs):
        obs = []
        for g in gs:
            back = ztab.pull(g, ogates)
            obs.append(land(lor_all(back.x) ^ 1, back.r ^ 1))
        return land_all(obs)
    ctx.prove("compressed circuit prepares the same state as the input (all signed generators pulled back to +Z)", same_state(og, gens), info=dict(step=1))
    ctx.prove("input circuit object is left unmodified and the result is a different object", 1 if (circuit_fingerprint(qc_in) == fp and out is not qc_in) else 0, info=dict(step=1))
    es = coupling_spec.edge_set(n, conn)
    off = [g for g in og if len(g[1]) > 2 or (len(g[1]) == 2 and (min(g[1]), max(g[1])) not in es)]
    ctx.prove("compressed circuit obeys the connectivity %d-%s (offending %s)" % (n, conn, off[:1]), 0 if off else 1, info=dict(step=1))
    if want_cost:
        if cls is None:
            R = [[gens[j].x[q] for j in range(n)] for q in range(n)]
            S = [[gens[j].z[q] for j in range(n)] for q in range(n)]
            cls = pipeline._brute_class(n, R, S)
        ent = tables.entries(n, conn)[cls]
        c, d = circmetrics.two_qubit_count(og), circmetrics.two_qubit_depth(og, n)
        ctx.prove("compressed circuit has the two-qubit cost/depth of the state's class %d: %d/%d vs metadata %d/%d (input had %d two-qubit gates)"
                  % (cls, c, d, ent["cost"], ent["depth"], circmetrics.two_qubit_count(gates)), 1 if (c, d) == (ent["cost"], ent["depth"]) else 0, info=dict(step=1))
        info["cls"] = cls
    info["sig"] = hash(tuple((g, tuple(q)) for g, q in og)) & 0xFFFFFFFF
    if history:
        # history step: compress a re-signed variant of the same circuit, then look at the FIRST result again
        gates2 = [("x", [0])] + list(gates) + [("z", [n - 1])]
        try:
            out2 = sc.compress_preparation_circuit(build_circuit(n, gates2), conn)
            og2 = ztab.gates_of(out2)
            ctx.prove("after compressing a re-signed variant, that variant's result prepares its own state", same_state(og2, state_generators(n, gates2)), info=dict(step=2))
            ctx.prove("after compressing a re-signed variant, the earlier result still prepares the earlier state", same_state(ztab.gates_of(out), gens), info=dict(step=3))
        except EXC as e:
            ctx.prove("second compress call raised %s" % type(e).__name__, 0, info=dict(step=2))
    return info


def _small_job(job):
    """all programs of exactly k gates on n qubits with a fixed first gate (partition) - choices symbolic, realised"""
    n, conn, k, first = job
    alpha = alphabet(n)
    A = len(alpha)
    w = max(1, (A - 1).bit_length())
    core.tt_disable()
    cands = []

    def fn():
        ctx = Ctx.cur
        idx = []
        for i in range(k - (1 if first is not None else 0)):
            v = core.symint("g%d" % i, w)
            ctx.assume(core.litof(v < A))
            idx.append(v)
        gates = ([alpha[first]] if first is not None else []) + [alpha[int(v)] for v in idx]   # realisation
        info = check_leaf(ctx, n, conn, gates, None, history=(k <= 2))
        info["gates"] = gates if len(gates) <= 3 else None
        return info
    res = explore(fn, mode="fork")
    for v in res.violations[:4]:
        env = v["model"]
        rest = []
        for i in range(k - (1 if first is not None else 0)):
            val = sum((1 << b) for b in range(w) if env.get("g%d.%d" % (i, b)))
            rest.append(alpha[val])
        cands.append(dict(kind="program", n=n, conn=conn, gates=([alpha[first]] if first is not None else []) + rest, cls=None, label=v["label"], step=(v.get("info") or {}).get("step", 1)))
    res.violations = []
    sigs = len(set(l.get("sig") for l in res.leaves))
    sample = [l for l in res.leaves if l.get("gates")][:1]
    res.leaves = []
    return dict(res=res.to_json(), cands=cands, nsigs=sigs, sample=sample)


def structured(n, adj, style, pauli, layer_ids, redundant, rnd):
    """long structured program preparing a state of the class of graph `adj`: graph-state circuit, Pauli layer,
    local Clifford layer, redundant inverse pairs (contains Y, I, SWAP pairs: shapes random_clifford never yields)"""
    gates = []
    edges = [(i, j) for i in range(n) for j in range(i + 1, n) if adj[i][j]]
    if style == 0:
        gates += [("h", [q]) for q in range(n)]
        gates += [("cz", [i, j]) for i, j in edges]
    else:
        gates += [("h", [q]) for q in range(n)]
        for i, j in edges:
            gates += [("h", [j]), ("cx", [i, j]), ("h", [j])]
    for q in range(n):
        gates.append((["id", "x", "z", "y"][pauli[q]], [q]))
    for q in range(n):
        gates += [(g, [q]) for g in WORDS[layer_ids[q]]]
    for _ in range(redundant):
        pos = rnd.randrange(len(gates) + 1)
        kind = rnd.randrange(5)
        a, b = rnd.sample(range(n), 2)
        pair = [[("h", [a]), ("h", [a])], [("s", [a]), ("sdg", [a])], [("cx", [a, b]), ("cx", [a, b])],
                [("swap", [a, b]), ("swap", [a, b])], [("y", [a]), ("y", [a])]][kind]
        gates[pos:pos] = pair
    return gates


def _struct_job(job):
    n, conn, cls, seed, tier = job
    rnd = random.Random(seed * 9973 + cls * 31 + n + len(conn))
    adj = tables.entries(n, conn)[cls]["adj"] if rnd.random() < 0.5 else tables.rep_graph(n, cls)
    base_layer = [rnd.randrange(6) for _ in range(n)]
    wq = rnd.randrange(n)
    style = rnd.randrange(2)
    redundant = rnd.randrange(0, 5)
    seedr = rnd.randrange(10 ** 6)
    symbolic_layer = (tier == "thorough")
    names = ["pc0", "pc1"] + (["lw0", "lw1", "lw2"] if symbolic_layer else [])
    core.tt_setup(names)
    p0 = [rnd.randrange(4) for _ in range(n)]
    u = [rnd.randrange(4) for _ in range(n)]
    v = [rnd.randrange(4) for _ in range(n)]
    cands = []

    def fn():
        ctx = Ctx.cur
        a, b = core.symbit("pc0"), core.symbit("pc1")
        if n == 6 and tier == "quick":
            ctx.assume(var("pc0") ^ 1)       # quick tier, 6 qubits: one Pauli pattern per class (all classes are visited)
            ctx.assume(var("pc1") ^ 1)
        lw = None
        if symbolic_layer:
            lw = core.symint("lw", 3)
            ctx.assume(core.litof(lw < 6))
        ai, bi = int(a), int(b)                      # realisation of the Pauli-layer family
        pauli = [p0[q] ^ (u[q] if ai else 0) ^ (v[q] if bi else 0) for q in range(n)]
        layer = list(base_layer)
        if lw is not None:
            layer[wq] = int(lw)
        gates = structured(n, adj, style, pauli, layer, redundant, random.Random(seedr))
        info = check_leaf(ctx, n, conn, gates, cls, history=(ai == 0 and bi == 0))
        info["models"] = ctx.model_count()
        return info
    res = explore(fn, mode="fork")
    for vv in res.violations[:3]:
        env = vv["model"]
        ai, bi = int(bool(env.get("pc0"))), int(bool(env.get("pc1")))
        pauli = [p0[q] ^ (u[q] if ai else 0) ^ (v[q] if bi else 0) for q in range(n)]
        layer = list(base_layer)
        if symbolic_layer:
            layer[wq] = sum((1 << i) for i in range(3) if env.get("lw.%d" % i))
        gates = structured(n, adj, style, pauli, layer, redundant, random.Random(seedr))
        cands.append(dict(kind="program", n=n, conn=conn, gates=gates, cls=cls, label=vv["label"], step=(vv.get("info") or {}).get("step", 1)))
    res.violations = []
    sample = [dict(n=n, conn=conn, cls=cls, length=l.get("len")) for l in res.leaves[:1]]
    res.leaves = []
    return dict(res=res.to_json(), cands=cands, sample=sample)


def _trivial_job(job):
    """programs that end in a computational-basis or other product state (empty circuit, Paulis only, diagonal gates
    and controlled gates acting trivially): concrete programs from a seeded generator, every configuration"""
    n, conn, seed = job
    rnd = random.Random(seed)
    core.tt_disable()
    progs = [[], [("x", [q]) for q in range(n) if rnd.random() < 0.5], [("z", [0]), ("s", [n - 1]), ("cz", [0, 1])],
             [("x", [0]), ("cx", [1, 2]), ("swap", [0, n - 1]), ("y", [1])], [("h", [q]) for q in range(n)],
             [("h", [q]) for q in range(n)] + [("s", [q]) for q in range(n) if rnd.random() < 0.5]]
    cands = []
    res_all = core.Result()
    for prog in progs:
        def fn():
            return check_leaf(Ctx.cur, n, conn, prog, 0, history=False)
        res = explore(fn)
        for v in res.violations[:1]:
            cands.append(dict(kind="program", n=n, conn=conn, gates=prog, cls=0, label=v["label"], step=1))
        res.violations = []
        res.leaves = []
        res_all.merge(res)
    return dict(res=res_all.to_json(), cands=cands, sample=[])


def _oracle_class_of_graph(n, adj):
    """class id of a graph state: the library's classifier is used only as a HINT, confirmed by an exists-layer
    certificate against the representative of that id (independent of the classifier)"""
    lc = loader.native("lc_classes")
    stn = loader.native("stabilizer")
    gr = loader.native("graph")
    hint = int(lc.determine_lc_class(stn.Stabilizer(gr.Graph(np.array(adj, dtype=np.int8)))).id())
    q = lcq.Q()
    r, _ = lcq.lc_equivalent(q, adj, tables.rep_graph(n, hint))
    if r == "sat":
        return hint
    for c in range(NCLASSES[n]):
        r, _ = lcq.lc_equivalent(q, adj, tables.rep_graph(n, c))
        if r == "sat":
            return c
    return None


def _routed_job(job):
    """user-style circuits: (1) a graph state on the first n-1 qubits, last qubit idle; (2) a Bell-type pair created on a
    coupled pair and then routed apart with a chain of SWAPs along the coupling graph (few gates, large true cost)"""
    n, conn, seed, tier = job
    rnd = random.Random(seed)
    core.tt_disable()
    es = coupling_spec.edges(n, conn)
    nb = {v: [] for v in range(n)}
    for a, b in es:
        nb[a].append(b)
        nb[b].append(a)
    progs = []
    # (1) idle last qubit
    if n >= 3:
        K1 = NCLASSES[n - 1]
        for c1 in sorted(set([K1 - 1] + [rnd.randrange(K1) for _ in range(3 if tier == "quick" else 12)])):
            g1 = tables.rep_graph(n - 1, c1)
            adj = [[g1[i][j] if i < n - 1 and j < n - 1 else 0 for j in range(n)] for i in range(n)]
            gates = [("h", [q]) for q in range(n - 1)] + [("cz", [i, j]) for i in range(n - 1) for j in range(i + 1, n - 1) if g1[i][j]]
            gates += [(rnd.choice(["s", "h", "x", "z"]), [rnd.randrange(n - 1)]) for _ in range(3)]
            progs.append((gates, adj))
    # (2) SWAP-routed pairs
    for _ in range(3 if tier == "quick" else 12):
        a, b = rnd.choice(es)
        if rnd.random() < 0.5:
            a, b = b, a
        gates = [("h", [a]), ("h", [b]), ("cz", [a, b])]
        cur, other = b, a
        visited = {a, b}
        for _step in range(rnd.randrange(1, n)):
            nxt = [v for v in nb[cur] if v not in visited]
            if not nxt:
                break
            v = rnd.choice(nxt)
            gates.append(("swap", [cur, v]))
            visited.add(v)
            cur = v
        adj = [[0] * n for _ in range(n)]
        adj[other][cur] = adj[cur][other] = 1
        progs.append((gates, adj))
    cands = []
    res_all = core.Result()
    for gates, adj in progs:
        cls = _oracle_class_of_graph(n, adj)

        def fn():
            return check_leaf(Ctx.cur, n, conn, gates, cls, history=False, want_cost=cls is not None)
        res = explore(fn)
        for v in res.violations[:1]:
            cands.append(dict(kind="program", n=n, conn=conn, gates=gates, cls=cls, label=v["label"], step=1))
        res.violations = []
        res.leaves = []
        res_all.merge(res)
    return dict(res=res_all.to_json(), cands=cands, sample=[])


def jobs_for(tier, seed):
    small = []
    for (n, conn) in ADVERTISED:
        if n == 2:
            ks = [0, 1, 2, 3] if tier == "quick" else [0, 1, 2, 3, 4]
        elif n == 3:
            ks = [1, 2] if tier == "quick" else [1, 2, 3]
        else:
            continue
        A = len(alphabet(n))
        for k in ks:
            if k <= 1:
                small.append((n, conn, k, None))
            else:
                for first in range(A):
                    small.append((n, conn, k, first))
    struct = []
    rnd = random.Random(seed)
    for (n, conn) in ADVERTISED:
        if n < 4:
            continue
        K = NCLASSES[n]
        classes = range(K)
        for cls in classes:
            struct.append((n, conn, cls, seed, tier))
    return small, struct


def run(tier, seed):
    ck = harness.Check(PID, tier, seed)
    ck.encode("stabilizer_circuits.compress_preparation_circuit", "stabilizer.Stabilizer.__init__ (circuit branch)", "stabilizer_circuits._get_preparation_circuit_modulo_phase",
              "rotate_stabilizer_into_state.rotate_stabilizer_into_state/_rotate_stabilizer_into_state_circuit")
    ck.bounds += ["C07-a small programs: ALL gate sequences over {id,x,y,z,h,s,sdg}x qubit and {cx,cz,swap}x ordered pair of length <=%s on 2 qubits and <=%s on 3 qubits (gate choices symbolic, realised by the solver: this part is solver-driven enumeration)" % (("3", "2") if tier == "quick" else ("4", "3")),
                  "structured long programs (up to ~70 gates incl. Y, I, redundant inverse pairs, SWAP pairs, CX- or CZ-built graph states) for n=4..6: %s; Pauli layer in a seeded affine family of 4 (quick, n=6: 1)%s" % (
                      "every class of every configuration" if tier == "quick" else "every class of every configuration", "" if tier == "quick" else ", one local Clifford symbolic (6 values)"),
                  "programs ending in computational-basis / product states (empty circuit, Paulis, trivially acting controlled gates, H layers) for every configuration with n>=4",
                  "user-style programs for every configuration with n>=3: graph states on the first n-1 qubits with the last qubit idle; Bell-type pairs created on a coupled pair and routed apart by SWAP chains along the coupling graph (oracle class: exists-layer certificate)",
                  "history: a re-signed variant of the same program is compressed next and both results are re-examined"]
    ck.outside += ["arbitrary programs longer than the bound (lifted through C14-circuit + C01, DESIGN.md §C07-b)", "global phase (the property allows it)"]
    ck.validated += ztab.validate_against_qiskit(seed=seed, trials=100)
    small, struct = jobs_for(tier, seed)
    cands = []
    for job, r in harness.pmap(_small_job, small, progress=100):
        res = core.Result.from_json(r["res"])
        ck.add("programs n=%d %s k=%d" % job[:3], res, sample=0)
        if r["sample"] and job[3] in (None, 5):
            ck.sample("program", r["sample"][0])
        for c in r["cands"]:
            cands.append(("program n=%d %s %s step=%s %s" % (c["n"], c["conn"], c["gates"], c["step"], c["label"][:40]), c, "%d-%s program %s: %s" % (c["n"], c["conn"], c["gates"], c["label"])))
    triv = [(n, conn, seed + 3 * n) for (n, conn) in ADVERTISED if n >= 4]
    for job, r in harness.pmap(_trivial_job, triv):
        res = core.Result.from_json(r["res"])
        ck.add("product-state programs %d-%s" % job[:2], res, sample=0)
        for c in r["cands"]:
            cands.append(("trivial n=%d %s %s" % (c["n"], c["conn"], c["gates"]), c, "%d-%s program %s (product state): %s" % (c["n"], c["conn"], c["gates"], c["label"])))
    routed = [(n, conn, seed * 31 + 7 * n + len(conn), tier) for (n, conn) in ADVERTISED if n >= 3]
    for job, r in harness.pmap(_routed_job, routed):
        res = core.Result.from_json(r["res"])
        ck.add("idle-qubit / SWAP-routed programs %d-%s" % job[:2], res, sample=0)
        for c in r["cands"]:
            cands.append(("routed n=%d %s %s" % (c["n"], c["conn"], c["gates"]), c, "%d-%s program %s: %s" % (c["n"], c["conn"], c["gates"], c["label"])))
    for job, r in harness.pmap(_struct_job, struct, progress=1000):
        res = core.Result.from_json(r["res"])
        ck.add("structured %d-%s" % job[:2], res, sample=0)
        if r["sample"] and job[2] in (5, 100):
            ck.sample("structured", r["sample"][0])
        for c in r["cands"]:
            cands.append(("structured n=%d %s cls=%d step=%s %s" % (c["n"], c["conn"], c["cls"], c["step"], c["label"][:40]), c, "%d-%s class %d, %d-gate program: %s" % (c["n"], c["conn"], c["cls"], len(c["gates"]), c["label"])))
    seen = set()
    uniq = [c for c in cands if not (c[0] in seen or seen.add(c[0]))]
    ck.candidates(uniq[:30])
    # vacuity twin

    def twin():
        check_leaf(Ctx.cur, 2, "all", [("h", [0]), ("cx", [0, 1])], None, history=False)
        Ctx.cur.prove("twin", 0)
    core.tt_disable()
    tw = explore(twin, max_paths=1)
    ck.vacuity_twin("compress harness reaches its obligations", bool(tw.violations))
    return ck.finish()


# ------------------------------------------------------------------------------------------------ replay
def replay(case):
    from qiskit import QuantumCircuit
    from .. import dense
    from htstabilizer.stabilizer_circuits import compress_preparation_circuit
    from htstabilizer.circuit_lookup import stabilizer_circuit_lookup
    n, conn = case["n"], case["conn"]
    gates = [(g, list(q)) for g, q in case["gates"]]

    def mk_qc(gs):
        qc = QuantumCircuit(n)
        for g, q in gs:
            getattr(qc, g)(*q)
        return qc
    qc = mk_qc(gates)
    before = [(i.operation.name, tuple(qc.find_bit(q).index for q in i.qubits)) for i in qc.data]
    try:
        out = compress_preparation_circuit(qc, conn)
    except Exception as e:
        return True, "compress raised %r" % (e,)
    after = [(i.operation.name, tuple(qc.find_bit(q).index for q in i.qubits)) for i in qc.data]
    if before != after or out is qc:
        return True, "input circuit modified / returned"
    og = dense.gates_of(out)
    f = abs(np.vdot(dense.run(n, gates), dense.run(n, og))) ** 2
    if abs(f - 1) > 1e-9:
        return True, "compressed circuit prepares a different state (fidelity %.3f)" % f
    es = coupling_spec.edge_set(n, conn)
    off = [g for g in og if len(g[1]) > 2 or (len(g[1]) == 2 and (min(g[1]), max(g[1])) not in es)]
    if off:
        return True, "gate %s off the coupling graph of %d-%s" % (off[0], n, conn)
    cls = case.get("cls")
    if cls is None and n <= 3:
        from htstabilizer.stabilizer import Stabilizer
        s = Stabilizer(qc)
        from .c06 import _lc_equiv_bruteforce
        cls = next(c for c in range(NCLASSES[n]) if _lc_equiv_bruteforce(s.R.tolist(), s.S.tolist(), tables.rep_graph(n, c)))
    if cls is not None:
        info = stabilizer_circuit_lookup(n, conn, cls)
        c, d = circmetrics.two_qubit_count(og), circmetrics.two_qubit_depth(og, n)
        if (c, d) != (info.cost, info.depth):
            return True, "compressed circuit has two-qubit cost/depth %d/%d, class %d metadata says %d/%d" % (c, d, cls, info.cost, info.depth)
    if case.get("step", 1) >= 2:
        gates2 = [("x", [0])] + gates + [("z", [n - 1])]
        try:
            out2 = compress_preparation_circuit(mk_qc(gates2), conn)
        except Exception as e:
            return True, "second compress raised %r" % (e,)
        f2 = abs(np.vdot(dense.run(n, gates2), dense.run(n, dense.gates_of(out2)))) ** 2
        f1 = abs(np.vdot(dense.run(n, gates), dense.run(n, dense.gates_of(out)))) ** 2
        if abs(f2 - 1) > 1e-9:
            return True, "second result prepares a different state (fidelity %.3f)" % f2
        if abs(f1 - 1) > 1e-9:
            return True, "after a later call the EARLIER result no longer prepares its state (fidelity %.3f)" % f1
    return False, "compress behaves correctly on this program"
