"""native replay for C10/C11/C12: random mixed states with complex coherences, exact statistics by dense simulation,
the NATIVE fitters, comparison with Tr(rho P)"""
import itertools
import numpy as np
from . import _tomoprop as tp
from ..tomo import pauli_label_q0first, label_of_xz


class _Res:
    def __init__(self, c):
        self.c = c

    def get_counts(self):
        return self.c if len(self.c) != 1 else self.c[0]


def replay(case):
    from qiskit import QuantumCircuit
    from htstabilizer import tomography as tm
    from htstabilizer.stabilizer import Stabilizer
    from .. import dense
    N, conn, mq, which = case["N"], case["conn"], case.get("mq"), case["which"]
    rnd = np.random.RandomState(7)
    mlist = list(range(N)) if mq is None else list(mq)
    m = len(mlist)
    for trial in range(3):
        rho = tp.random_state(N, rnd)
        if case.get("warm") and which == "tomography" and trial == 0:
            prep0 = tp.make_prep(N, "plain")
            circs0 = tm.full_state_tomography_circuits(prep0, case["warm"], None)
            fit0 = tm.FullStateTomographyFitter(_Res([tp._with_cregs(tp.native_counts(c, rho, N), prep0.num_clbits) for c in circs0]), circs0)
            fit0.expectation_values()
            if N <= 4:
                fit0.density_matrix()
        prep = tp.make_prep(N, case.get("variant", "plain") if mq is not None else "plain")
        ncl = prep.num_clbits
        try:
            if which == "tomography":
                circs = tm.full_state_tomography_circuits(prep, conn, mq)
                labels_m = ["".join(t) for t in itertools.product("IXYZ", repeat=m)]
            else:
                R, S, ph = case["R"], case["S"], case["phases"]
                stab = Stabilizer((np.array(R, dtype=np.int8), np.array(S, dtype=np.int8), np.array(ph, dtype=np.int8)))
                circs = [tm.stabilizer_measurement_circuit(prep, stab, conn, mq)]
                n = len(R)
                labels_m = []
                for a in range(2 ** n):
                    x = [0] * n
                    z = [0] * n
                    for j in range(n):
                        if (a >> j) & 1:
                            x = [x[q] ^ R[q][j] for q in range(n)]
                            z = [z[q] ^ S[q][j] for q in range(n)]
                    labels_m.append(label_of_xz(x, z))
            if len(prep.data) != 0 or prep.num_clbits != ncl or any(c is prep for c in circs):
                return True, "the circuit builder modified (or returned) the caller's preparation circuit"
            counts = [tp._with_cregs(tp.native_counts(c, rho, N), ncl) for c in circs]
            orders = ((True,),) if mq is None else ((False, True), (True, False))
            for order in orders:
                fit = tm.FullStateTomographyFitter(_Res(counts), circs) if which == "tomography" else tm.StabilizerMeasurementFitter(_Res(counts), circs[0])
                for full in order:
                    ev = fit.expectation_values(full_hilbert_space=full)
                    use_full = full or mq is None
                    exp = {(tp.embed(l, mlist, N) if use_full else l): tp.embed(l, mlist, N) for l in labels_m}
                    got = {}
                    for P, val in ev.items():
                        lab, ph_ = pauli_label_q0first(P)
                        got[lab] = val
                    if set(got) != set(exp):
                        return True, "%s, list %s, %s mode: key set wrong (%d keys, %d expected; e.g. missing %s, unexpected %s)" % (
                            which, mq, "full" if full else "reduced", len(got), len(exp), sorted(set(exp) - set(got))[:2], sorted(set(got) - set(exp))[:2])
                    for lab, reg in exp.items():
                        want = tp.native_expect(rho, reg)
                        if abs(got[lab] - want) > 1e-9:
                            return True, "%s, %d-%s, list %s, %s mode: <%s> reported %.6f, Tr(rho %s) = %.6f" % (which, m, conn, mq, "full" if full else "reduced", lab, got[lab], reg, want)
                    k = N if use_full else m
                    if k <= 5:
                        dm = fit.density_matrix(full_hilbert_space=full)
                        E = sum(tp.native_expect(rho, reg) * dense.pauli_matrix(lab) for lab, reg in exp.items()) / 2 ** k
                        if dm.shape != E.shape or np.abs(dm - E).max() > 1e-9:
                            return True, "%s, list %s, %s mode: density matrix differs from sum Tr(rho P) P / 2^k by %.3g" % (which, mq, "full" if full else "reduced", np.abs(dm - E).max() if dm.shape == E.shape else -1)
        except Exception as e:
            return True, "raised %r" % (e,)
    return False, "fitter exact on 3 random mixed states"
