"""C02 - every delivered circuit uses two-qubit gates only on coupled qubit pairs."""
import itertools, random
import numpy as np
from .. import harness, loader, core, pipeline, tables, ztab, circmetrics, coupling_spec
from ..core import Ctx, explore, var, land_all, lor_all
from ..coupling_spec import ADVERTISED, NCLASSES
from . import _pipeprop

PID = "C02"


def _mub_lines(n, conn):
    mc = loader.native("mub_circuits")
    return [ztab.gates_of(c) for c in mc.get_mub_circuits(n, conn)]


def _measure_job(job):
    """measured-qubit lists: symbolic ordered m-subset of an N-qubit register (realised), both circuit builders"""
    m, conn, N, lists, seed = job
    tomo = loader.sym("tomography")
    st = loader.sym("stabilizer")
    from qiskit import QuantumCircuit
    es = coupling_spec.edge_set(m, conn)
    mub = _mub_lines(m, conn)
    rnd = random.Random(seed)
    cls_ids = sorted(set([NCLASSES[m] - 1] + [rnd.randrange(NCLASSES[m]) for _ in range(2)]))
    cands = []

    def fn():
        ctx = Ctx.cur
        w = max(1, (N - 1).bit_length())
        qs = [core.symint("q%d" % i, w) for i in range(m)]
        for q in qs:
            ctx.assume(core.litof(q < N))
        for a in range(m):
            for b in range(a + 1, m):
                ctx.assume(core.litof(qs[a] != qs[b]))
        if lists is not None:
            ctx.assume(lor_all([land_all([core.litof(qs[i] == l[i]) for i in range(m)]) for l in lists]))
        mq = [int(q) for q in qs]          # realisation: every feasible ordered list
        prep = QuantumCircuit(N)
        problems = []
        circs = tomo.full_state_tomography_circuits(prep, conn, mq)
        if len(circs) != 2 ** m + 1:
            problems.append("expected %d tomography circuits, got %d" % (2 ** m + 1, len(circs)))
        for i, c in enumerate(circs):
            g = ztab.gates_of(c, allow_measure=True)
            want = [(name, [mq[q] for q in qq]) for name, qq in mub[i]] if i < len(mub) else None
            for name, qq in g:
                if len(qq) > 2:
                    problems.append("gate on %d qubits" % len(qq))
                if len(qq) == 2:
                    try:
                        a, b = mq.index(qq[0]), mq.index(qq[1])
                    except ValueError:
                        problems.append("tomography circuit %d: two-qubit gate %s on unlisted qubit" % (i, (name, qq)))
                        continue
                    if (min(a, b), max(a, b)) not in es:
                        problems.append("tomography circuit %d: %s on register qubits %s = list positions (%d,%d), not coupled in %d-%s" % (i, name, qq, a, b, m, conn))
            if want is not None and [(a, list(b)) for a, b in g] != want:
                problems.append("tomography circuit %d is not MUB circuit %d mapped through the qubit list" % (i, i))
        # the same list given as Qubit objects of a preparation circuit with TWO quantum registers
        if N >= 2:
            from qiskit import QuantumRegister
            prep2 = QuantumCircuit(QuantumRegister(1, "a"), QuantumRegister(N - 1, "b"))
            try:
                circs2 = tomo.full_state_tomography_circuits(prep2, conn, [prep2.qubits[i] for i in mq])
                for i, (c, c2) in enumerate(zip(circs, circs2)):
                    if ztab.gates_of(c, allow_measure=True) != ztab.gates_of(c2, allow_measure=True):
                        problems.append("tomography circuit %d differs when the same qubits are given as Qubit objects of a two-register circuit" % i)
                        break
            except Exception as e:
                problems.append("Qubit-object list on a two-register circuit raised %s" % type(e).__name__)
        ctx.prove("full_state_tomography_circuits: every two-qubit gate lies on a coupled pair after mapping through the list %s: %s" % (mq, problems[:2]), 0 if problems else 1,
                  info=dict(mq=mq, which="tomography"))
        problems = []
        for cid in cls_ids:
            adj = tables.rep_graph(m, cid)
            s = st.Stabilizer(loader.sym("graph").Graph(np.array(adj, dtype=np.int8).view(loader.sym("graph").np.ndarray) if False else _sym_adj(adj)))
            c = tomo.stabilizer_measurement_circuit(prep, s, conn, mq)
            g = ztab.gates_of(c, allow_measure=True)
            if N >= 2:
                from qiskit import QuantumRegister
                prep2 = QuantumCircuit(QuantumRegister(1, "a"), QuantumRegister(N - 1, "b"))
                try:
                    c2 = tomo.stabilizer_measurement_circuit(prep2, s, conn, [prep2.qubits[i] for i in mq])
                    if ztab.gates_of(c2, allow_measure=True) != g:
                        problems.append("class %d: circuit differs when the qubits are given as Qubit objects of a two-register circuit" % cid)
                except Exception as e:
                    problems.append("class %d: Qubit-object list raised %s" % (cid, type(e).__name__))
            for name, qq in g:
                if len(qq) == 2:
                    try:
                        a, b = mq.index(qq[0]), mq.index(qq[1])
                    except ValueError:
                        problems.append("class %d: gate on unlisted qubit %s" % (cid, qq))
                        continue
                    if (min(a, b), max(a, b)) not in es:
                        problems.append("class %d: %s on %s = positions (%d,%d) not coupled" % (cid, name, qq, a, b))
        ctx.prove("stabilizer_measurement_circuit: every two-qubit gate lies on a coupled pair after mapping through the list %s: %s" % (mq, problems[:2]), 0 if problems else 1,
                  info=dict(mq=mq, which="stabilizer", classes=cls_ids))
        return {"mq": mq}
    res = explore(fn, mode="reexec")
    for v in res.violations[:4]:
        cands.append(dict(kind="measure", m=m, conn=conn, N=N, mq=v["info"]["mq"], which=v["info"]["which"], classes=v["info"].get("classes"), label=v["label"]))
    res.violations = []
    res.leaves = res.leaves[:2]
    return dict(res=res.to_json(), cands=cands)


def _sym_adj(adj):
    from .. import symnp
    return symnp.SymArray(np.array(adj, dtype=np.int64), np.int8)


def run(tier, seed):
    ck = harness.Check(PID, tier, seed)
    ck.encode("connectivity_support.get_connectivity_graph", "connectivity_support.get_available_connectivities", "stabilizer_circuits.get_preparation_circuit/get_readout_circuit",
              "mub_circuits.get_mub_circuits", "tomography.full_state_tomography_circuits", "tomography.stabilizer_measurement_circuit",
              "circuit_lookup.parse_circuit", "graph.Graph.*")
    ck.bounds += ["part 1: all 20 advertised configurations, reported coupling graph == hand-transcribed edge table",
                  "part 2: every stabilizer-table line and every MUB line (complete, finite)",
                  "part 3: on every leaf of the C01/C03 families: ordered list of two-qubit instructions equals the table entry's (reversed for readout), all on coupled pairs, no gate on >2 qubits",
                  "part 4 also passes each list as Qubit objects of a two-register preparation circuit (same circuits expected)",
                  "part 4: measured-qubit lists: every ordered m-subset of an N-qubit register for m<=3 (N<=m+2) and m=4 (N<=5, thorough; quick: seeded lists); seeded non-ascending lists for m=5,6 (N<=m+2)"]
    ck.bounds += ["Fc0: EVERY class of EVERY configuration once (table graph, seeded concrete local-Clifford layer - thorough: one symbolic qubit for n<=5 -, seeded basis change, 2 sign vectors)"]
    ck.bounds += ["compressed circuits: user-style programs (idle last qubit, SWAP-routed pairs) for every configuration with n>=3 (C07 covers compress in depth)"]
    ck.outside += ["N > m+2"]
    cs = loader.native("connectivity_support")
    # ---- part 1
    ck.obligations += 1
    if sorted(cs.get_available_connectivities()) == sorted(ADVERTISED):
        ck.discharged += 1
    else:
        ck.candidate("available-connectivities", dict(kind="graph", n=0, conn="-"), "get_available_connectivities() differs from the 20 advertised pairs")
    for (n, conn) in ADVERTISED:
        ck.obligations += 1
        try:
            got = sorted((min(a, b), max(a, b)) for a, b in cs.get_connectivity_graph(n, conn).get_edges())
            nv = cs.get_connectivity_graph(n, conn).num_vertices
        except Exception as e:
            got, nv = repr(e), -1
        if got == coupling_spec.edges(n, conn) and nv == n:
            ck.discharged += 1
        else:
            ck.candidate("graph %d-%s" % (n, conn), dict(kind="graph", n=n, conn=conn), "coupling graph of %d-%s is %s, documented %s" % (n, conn, got, coupling_spec.edges(n, conn)))
    ck.count("coupling-graphs", paths=len(ADVERTISED), sig=["g%d%s" % p for p in ADVERTISED])
    # ---- part 2
    for (n, conn) in ADVERTISED:
        es = coupling_spec.edge_set(n, conn)
        lines = [("table", e["id"], e["gates"]) for e in tables.entries(n, conn)] + [("mub", i, g) for i, g in enumerate(_mub_lines(n, conn))]
        for kind, i, gates in lines:
            ck.obligations += 1
            off = [g for g in gates if len(g[1]) > 2 or (len(g[1]) == 2 and (min(g[1]), max(g[1])) not in es)]
            if not off:
                ck.discharged += 1
            else:
                ck.candidate("%s line %d-%s #%d" % (kind, n, conn, i), dict(kind="line", which=kind, n=n, conn=conn, id=i), "%s line %d of %d-%s has %s off the coupling graph" % (kind, i, n, conn, off[0]))
        ck.count("lines %d-%s" % (n, conn), paths=len(lines), sig=["l%d%s%s%d" % (n, conn, k, i) for k, i, _ in lines])
    # ---- part 3
    jobs = pipeline.f3_jobs(tier, seed, signs=("affine", 1)) + pipeline.fc_jobs(tier, seed, signs_quick=("affine", 1), signs_thorough=("affine", 2)) + pipeline.fc0_jobs(tier, seed)
    for j in jobs:
        j["resign"] = False
    _pipeprop.drive(ck, tier, seed, "prep", {"C02"}, jobs, label="prep")
    _pipeprop.drive(ck, tier, seed, "readout", {"C02"}, jobs, label="readout")
    # ---- part 4
    rnd = random.Random(seed + 5)
    mjobs = []
    for (m, conn) in ADVERTISED:
        for N in range(m, m + 3):
            if m <= 3 or (m == 4 and N <= 5 and tier == "thorough"):
                mjobs.append((m, conn, N, None, seed))
            else:
                lists = []
                for _ in range(4 if tier == "quick" else 12):
                    l = rnd.sample(range(N), m)
                    if l == sorted(l):
                        l = l[::-1]
                    lists.append(l)
                mjobs.append((m, conn, N, lists, seed))
    cands = []
    for job, r in harness.pmap(_measure_job, mjobs):
        res = core.Result.from_json(r["res"])
        ck.add("measured-lists %d-%s N=%d" % job[:3], res, sample=1 if job[2] == job[0] + 1 and job[0] == 3 else 0)
        for c in r["cands"]:
            cands.append(("measure %s %d-%s N=%d list=%s" % (c["which"], c["m"], c["conn"], c["N"], c["mq"]), c, c["label"]))
    ck.candidates(cands[:20])
    # ---- compressed circuits: user-style programs (idle qubits, SWAP routing) through compress_preparation_circuit
    from . import c07
    ccands = []
    for job, r in harness.pmap(c07._routed_job, [(n, conn, seed * 31 + 7 * n + len(conn), tier) for (n, conn) in ADVERTISED if n >= 3]):
        res = core.Result.from_json(r["res"])
        ck.add("compress programs %d-%s" % job[:2], res, sample=0)
        for c in r["cands"]:
            ccands.append(("compress n=%d %s %s" % (c["n"], c["conn"], c["gates"]), c, "compress, %d-%s program %s: %s" % (c["n"], c["conn"], c["gates"], c["label"])))
    ck.candidates(ccands[:10])
    _pipeprop.vacuity(ck, "prep", {"C02"})
    return ck.finish()


# ------------------------------------------------------------------------------------------------ replay
def replay(case):
    kind = case.get("kind")
    if kind == "pipeline":
        return _pipeprop.replay(case)
    if kind == "program":
        from . import c07
        return c07.replay(case)
    from htstabilizer import connectivity_support as cs
    from .. import dense
    if kind == "graph":
        if case["n"] == 0:
            return sorted(cs.get_available_connectivities()) != sorted(ADVERTISED), "available list"
        n, conn = case["n"], case["conn"]
        try:
            g = cs.get_connectivity_graph(n, conn)
            got = sorted((min(a, b), max(a, b)) for a, b in g.get_edges())
        except Exception as e:
            return True, "raised %r" % (e,)
        return got != coupling_spec.edges(n, conn) or g.num_vertices != n, "edges %s" % got
    if kind == "line":
        n, conn = case["n"], case["conn"]
        es = coupling_spec.edge_set(n, conn)
        if case["which"] == "table":
            from htstabilizer.circuit_lookup import stabilizer_circuit_lookup
            gates = dense.gates_of(stabilizer_circuit_lookup(n, conn, case["id"]).parse_circuit())
        else:
            from htstabilizer.mub_circuits import get_mub_circuits
            gates = dense.gates_of(get_mub_circuits(n, conn)[case["id"]])
        off = [g for g in gates if len(g[1]) > 2 or (len(g[1]) == 2 and (min(g[1]), max(g[1])) not in es)]
        return bool(off), "off-graph %s" % off[:2]
    if kind == "measure":
        from qiskit import QuantumCircuit, QuantumRegister
        from htstabilizer import tomography as tomo
        from htstabilizer.stabilizer import Stabilizer
        from htstabilizer.graph import Graph
        m, conn, N, mq = case["m"], case["conn"], case["N"], case["mq"]
        es = coupling_spec.edge_set(m, conn)
        prep = QuantumCircuit(N)
        circs = []
        if case["which"] == "tomography":
            circs = tomo.full_state_tomography_circuits(prep, conn, mq)
            if len(circs) != 2 ** m + 1:
                return True, "wrong number of circuits"
        else:
            for cid in case["classes"]:
                adj = tables.rep_graph(m, cid)
                circs.append(tomo.stabilizer_measurement_circuit(prep, Stabilizer(Graph(np.array(adj, dtype=np.int8))), conn, mq))
        # the same request with Qubit objects of a two-register preparation circuit
        if N >= 2:
            prep2 = QuantumCircuit(QuantumRegister(1, "a"), QuantumRegister(N - 1, "b"))
            ql = [prep2.qubits[i] for i in mq]
            try:
                if case["which"] == "tomography":
                    circs += tomo.full_state_tomography_circuits(prep2, conn, ql)
                else:
                    for cid in case["classes"]:
                        circs.append(tomo.stabilizer_measurement_circuit(prep2, Stabilizer(Graph(np.array(tables.rep_graph(m, cid), dtype=np.int8))), conn, ql))
            except Exception as e:
                return True, "Qubit-object list on a two-register circuit raised %r" % (e,)
        for c in circs:
            for name, qq in dense.gates_of(c):
                if len(qq) > 2:
                    return True, "gate on >2 qubits"
                if len(qq) == 2:
                    if qq[0] not in mq or qq[1] not in mq:
                        return True, "%s on unlisted qubits %s (list %s)" % (name, qq, mq)
                    a, b = mq.index(qq[0]), mq.index(qq[1])
                    if (min(a, b), max(a, b)) not in es:
                        return True, "%s on register qubits %s = list positions (%d,%d) of %s, not coupled in %d-%s" % (name, qq, a, b, mq, m, conn)
        return False, "all two-qubit gates on coupled pairs"
    return False, "unknown kind"
