"""C04 - two-qubit cost and depth depend only on the LC class and equal the lookup metadata."""
from .. import harness, pipeline, tables, circmetrics, coupling_spec
from . import _pipeprop

PID = "C04"
replay_pipeline = _pipeprop.replay


def run(tier, seed):
    ck = harness.Check(PID, tier, seed)
    ck.encode("stabilizer_circuits.get_preparation_circuit", "stabilizer_circuits.get_readout_circuit",
              "stabilizer_circuits._get_preparation_circuit_modulo_phase", "circuit_lookup.stabilizer_circuit_lookup/StabilizerCircuitInfo/parse_circuit",
              "rotate_stabilizer_into_state.*", "find_local_clifford_layer.local_clifford_layer_to_circuit")
    ck.bounds += ["same input families as C01/C03 (F3 complete for n=2, partitions for n=3; Fc windows/bases/signs for n=4..6)",
                  "per leaf: two-qubit count (SWAP=3) and ASAP two-qubit depth of the returned circuit == cost/depth columns of the table line of the ORACLE class (construction class for Fc, brute-force LC class for F3)",
                  "metadata of every table line == recomputed count/depth (all lines)"]
    ck.bounds += ["Fc0: EVERY class of EVERY configuration once (table graph, seeded concrete local-Clifford layer - thorough: one symbolic qubit for n<=5 -, seeded basis change, 2 sign vectors)"]
    ck.bounds += ["compressed circuits: structured programs (C07's family) for every class of the n=4,5 configurations and a seeded ninth (thorough: third) of the 6-qubit classes"]
    ck.outside += ["class invariance over members not in the families: composition of C02 skeleton equality + C06 + C17"]
    # metadata truth for every line (finite)
    for (n, conn, fn) in tables.stabilizer_files():
        ents = tables.entries(n, conn)
        for e in ents:
            ck.obligations += 1
            c, d = circmetrics.two_qubit_count(e["gates"]), circmetrics.two_qubit_depth(e["gates"], n)
            if (c, d) == (e["cost"], e["depth"]):
                ck.discharged += 1
            else:
                ck.candidate("%s id=%d metadata" % (fn, e["id"]), dict(kind="metadata", n=n, conn=conn, id=e["id"]),
                             "%s entry %d: recorded %d/%d actual %d/%d" % (fn, e["id"], e["cost"], e["depth"], c, d))
        ck.count("metadata:" + fn, paths=len(ents), sig=["%s:%d" % (fn, e["id"]) for e in ents])
    jobs = pipeline.f3_jobs(tier, seed, signs=("affine", 1)) + pipeline.fc_jobs(tier, seed, signs_quick=("affine", 1), signs_thorough=("affine", 2)) + pipeline.fc0_jobs(tier, seed)
    for j in jobs:
        j["resign"] = False
    costs = _pipeprop.drive(ck, tier, seed, "prep", {"C04"}, jobs, label="prep")
    costs2 = _pipeprop.drive(ck, tier, seed, "readout", {"C04"}, jobs, label="readout")
    # compressed circuits: structured programs for every class of the n=4,5 configurations (+ seeded 6-qubit classes)
    from . import c07
    from .. import core
    small, struct = c07.jobs_for("quick", seed)
    struct = [j for j in struct if j[0] <= 5 or (j[2] % (3 if tier == "thorough" else 9) == seed % 3)]
    cands = []
    for job, r in harness.pmap(c07._routed_job, [(n, conn, seed * 31 + 7 * n + len(conn), tier) for (n, conn) in coupling_spec.ADVERTISED if n >= 3]):
        res = core.Result.from_json(r["res"])
        ck.add("compress user-style programs %d-%s" % job[:2], res, sample=0)
        for c in r["cands"]:
            cands.append(("compress routed n=%d %s %s" % (c["n"], c["conn"], c["gates"]), c, "compress, %d-%s program %s: %s" % (c["n"], c["conn"], c["gates"], c["label"])))
    for job, r in harness.pmap(c07._struct_job, struct, progress=1000):
        res = core.Result.from_json(r["res"])
        ck.add("compress %d-%s" % job[:2], res, sample=0)
        for c in r["cands"]:
            cands.append(("compress n=%d %s cls=%d %s" % (c["n"], c["conn"], c["cls"], c["label"][:40]), c, "compress, %d-%s class %d, %d-gate program: %s" % (c["n"], c["conn"], c["cls"], len(c["gates"]), c["label"])))
    seen = set()
    ck.candidates([c for c in cands if not (c[0] in seen or seen.add(c[0]))][:20])
    multi = {k: sorted(v) for k, v in list(costs.items()) + list(costs2.items()) if len(v) > 1}
    ck.obligations += 1
    if not multi:
        ck.discharged += 1
    ck.extra["classes_with_more_than_one_cost"] = {"%d-%s-%d" % k: v for k, v in multi.items()}
    ck.extra["class_cost_table_sample"] = {"%d-%s-%d" % k: sorted(v) for k, v in list(costs.items())[:12]}
    _pipeprop.vacuity(ck, "prep", {"C04"})
    return ck.finish()


def replay(case):
    if case.get("kind") == "metadata":
        from htstabilizer.circuit_lookup import stabilizer_circuit_lookup
        from .. import dense
        info = stabilizer_circuit_lookup(case["n"], case["conn"], case["id"])
        g = dense.gates_of(info.parse_circuit())
        c, d = circmetrics.two_qubit_count(g), circmetrics.two_qubit_depth(g, case["n"])
        return (c, d) != (info.cost, info.depth), "recorded %d/%d actual %d/%d" % (info.cost, info.depth, c, d)
    if case.get("kind") == "program":
        from . import c07
        return c07.replay(case)
    return replay_pipeline(case)
