"""C10 - full-state tomography reconstructs every state exactly from exact statistics (symbolic state)."""
from .. import harness, loader, ztab
from ..coupling_spec import ADVERTISED
from . import _tomoprop, _tomoreplay

PID = "C10"
replay = _tomoreplay.replay


def _job(job):
    n, conn, perm = job[:3]
    warm = job[3] if len(job) > 3 else None
    pr = _tomoprop.Prover()
    problems, st = _tomoprop.full_tomography(n, conn, perm, pr, with_density=(n <= 4), warm=warm)
    return dict(problems=problems, st=st, q=dict(n=pr.n, t=pr.t, verdicts=pr.verdicts))


def run(tier, seed):
    ck = harness.Check(PID, tier, seed)
    ck.encode("tomography.full_state_tomography_circuits", "tomography.FullStateTomographyFitter.expectation_values/density_matrix",
              "tomography.StabilizerMeasurementFitter.expectation_values", "tomography.CircuitResult", "tomography._compute_expectation_value",
              "tomography.z_pauli_from_bitstring", "tomography._compute_density_matrix_from_pauli_expectation_values", "mub_circuits.get_mub_circuits")
    nmax = 5 if tier == "quick" else 6
    ck.bounds += ["the state is symbolic: all 4^n Pauli coefficients are free real unknowns (superset of all density matrices); every configuration with n<=%d" % nmax,
                  "the whole register also given as an explicit qubit list: every order for n<=3, seeded orders for n=4,5 (both modes, both call orders)",
                  "history step: a complete tomography of the same register size with another connectivity evaluated first in the same interpreter (all ordered pairs of configurations n<=4, seeded pairs n=5)",
                  "all 4^n reported expectation values and (n<=4) all density-matrix entries are proved equal to the expected linear forms by one LRA validity query per configuration"]
    ck.outside += ["floating-point rounding (statistics and arithmetic are exact rationals in the encoding)", "n=6 in the quick tier"]
    ck.assumptions += ["exact outcome distributions are derived from the returned circuits' gate lists with ztab (validated against qiskit on this run)"]
    ck.validated += ztab.validate_against_qiskit(seed=seed, trials=200)
    import itertools, random
    rnd = random.Random(seed)
    jobs = [(n, c, None) for (n, c) in ADVERTISED if n <= nmax]
    # the whole register given as an explicit qubit list in every order (n<=3) / seeded orders (n=4,5)
    for (n, c) in ADVERTISED:
        if n <= 3:
            jobs += [(n, c, list(p)) for p in itertools.permutations(range(n))]
        elif n <= 5:
            for _ in range(3 if tier == "quick" else 12):
                p = list(range(n))
                rnd.shuffle(p)
                jobs.append((n, c, p))
    # history: the same register size evaluated with ANOTHER connectivity first, in the same interpreter (every ordered pair
    # of configurations for n<=4; n=5: every configuration after one seeded other one; thorough: every ordered pair n<=5)
    for (n, c) in ADVERTISED:
        others = [c2 for (n2, c2) in ADVERTISED if n2 == n and c2 != c]
        if n > nmax or n > 5 or not others:
            continue
        for w in (others if (n <= 4 or tier == "thorough") else [rnd.choice(others)]):
            jobs.append((n, c, None, w))
    jobs.sort(key=lambda j: -j[0])
    cands = []
    for job, r in harness.pmap(_job, jobs):
        ck.count("%d-%s%s" % (job[0], job[1], (" after %s" % job[3]) if len(job) > 3 else ("" if job[2] is None else " list")), n_queries=r["q"]["n"], solver_s=r["q"]["t"], obligations=max(1, r["st"].get("pairs", 0)), discharged=max(1, r["st"].get("pairs", 0)) if not r["problems"] else 0,
                 verdicts=r["q"]["verdicts"], paths=r["st"].get("circuits", 0), sig=["%d-%s:%s:%d" % (job[0], job[1], job[2] if len(job) == 3 else "after-" + job[3], i) for i in range(r["st"].get("pairs", 0))])
        ck.sample("config", dict(n=job[0], conn=job[1], circuits=r["st"].get("circuits"), obligations=r["st"].get("pairs")))
        for p in r["problems"]:
            if p == "SOLVER-UNKNOWN":
                ck.harness_error("solver unknown %s" % (job,))
            else:
                cands.append(("%d-%s %s %s" % (job[0], job[1], job[2], job[3:]), dict(kind="tomo", which="tomography", N=job[0], conn=job[1], mq=job[2], warm=(job[3] if len(job) > 3 else None)),
                              "%d-%s list %s%s: %s" % (job[0], job[1], job[2], (" after a tomography with connectivity %s in the same interpreter" % job[3]) if len(job) > 3 else "", p)))
    seen = set()
    ck.candidates([c for c in cands if not (c[0] in seen or seen.add(c[0]))][:20])
    # vacuity: a wrong expectation must be refuted by the prover
    from ..tomo import Lin
    pr = _tomoprop.Prover()
    ck.vacuity_twin("the LRA prover refutes a wrong linear form", pr.all_equal([(Lin.unknown("XI"), Lin.unknown("IX"))]) == 0)
    return ck.finish()
