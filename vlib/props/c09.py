"""C09 - MUB families: complete, index-aligned with their circuits, cost-truthful."""
import copy
from fractions import Fraction
import numpy as np
from .. import harness, loader, core, spec, lcq, ztab, tables, circmetrics, coupling_spec
from ..core import var, land, lxor, lor_all, land_all, lxor_all, leq
from ..coupling_spec import ADVERTISED

PID = "C09"


def _parse(p):
    """independent parser: first character = qubit 0; optional sign"""
    sign = 0
    if p and p[0] in "+-":
        sign = 1 if p[0] == "-" else 0
        p = p[1:]
    return [1 if c in "XY" else 0 for c in p], [1 if c in "ZY" else 0 for c in p], sign, all(c in "IXYZ" for c in p)


def _config(job):
    n, conn = job
    mc = loader.native("mub_circuits")
    stn = loader.native("stabilizer")
    scn = loader.native("stabilizer_circuits")
    q = lcq.Q()
    out = dict(n=n, conn=conn, problems=[], obligations=0, discharged=0, samples=[])

    def ob(ok, kind, what, **extra):
        out["obligations"] += 1
        if ok:
            out["discharged"] += 1
        else:
            out["problems"].append(dict(kind=kind, n=n, conn=conn, what=what, **extra))
    tables._fresh_native_state()
    mubs = mc.get_mubs(n, conn)
    circs = mc.get_mub_circuits(n, conn)
    info = mc.get_mub_info(n, conn)
    ob(len(mubs) == 2 ** n + 1 and len(circs) == 2 ** n + 1 and all(len(b) == n for b in mubs), "count", "expected %d bases of %d strings and as many circuits, got %d/%d" % (2 ** n + 1, n, len(mubs), len(circs)))
    if out["problems"]:
        return out
    gl = [ztab.gates_of(c) for c in circs]
    bases = []
    for i, b in enumerate(mubs):
        cols = [_parse(p) for p in b]
        okchars = all(c[3] and len(c[0]) == n for c in cols)
        X = [[cols[g][0][qb] if okchars else 0 for g in range(n)] for qb in range(n)]
        Z = [[cols[g][1][qb] if okchars else 0 for g in range(n)] for qb in range(n)]
        bases.append((X, Z))
        v1 = okchars and spec.valid(X, Z) == 1
        try:
            v2 = bool(stn.Stabilizer(list(b)).validate())
        except Exception:
            v2 = False
        ob(v1 and v2, "basis", "basis %d %s is not n commuting independent Paulis (spec %s, validate() %s)" % (i, b, v1, v2), i=i)
    # ---- partition: every non-identity Pauli lies in exactly one basis group (membership <=> commutes with all generators)
    x = [var("px%d" % k) for k in range(n)]
    z = [var("pz%d" % k) for k in range(n)]
    mem = []
    for (X, Z) in bases:
        mem.append(land_all([lxor_all([lxor(land(x[k], Z[k][g]), land(z[k], X[k][g])) for k in range(n)]) ^ 1 for g in range(n)]))
    # exactly one: at least one and no two
    atleast = lor_all(mem)
    cnt_two = 0
    seen_any = 0
    for m_ in mem:
        cnt_two = core.lor(cnt_two, land(seen_any, m_))
        seen_any = core.lor(seen_any, m_)
    exactly_one = land(atleast, cnt_two ^ 1)
    r, env = q.check([lor_all(x + z), exactly_one ^ 1], want_model=True)
    if r == "sat":
        px = [int(env.get("px%d" % k, False)) for k in range(n)]
        pz = [int(env.get("pz%d" % k, False)) for k in range(n)]
        ob(False, "partition", "Pauli %s lies in %s basis group(s)" % ("".join("IXZY"[a + 2 * b] for a, b in zip(px, pz)), "no or several"), px=px, pz=pz)
    else:
        ob(r == "unsat", "unknown", "solver unknown (partition)")
    # ---- index alignment
    a = [var("ca%d" % g) for g in range(n)]
    for i, (X, Z) in enumerate(bases):
        ex = [lxor_all([land(a[g], X[qb][g]) for g in range(n)]) for qb in range(n)]
        ez = [lxor_all([land(a[g], Z[qb][g]) for g in range(n)]) for qb in range(n)]
        fwd = ztab.push(ztab.P(ex, ez, 0), gl[i])
        r, env = q.check([lor_all(fwd.x)], want_model=True)
        if r == "sat":
            ob(False, "align", "circuit %d does not diagonalise element a=%s of basis %d" % (i, [int(env.get("ca%d" % g, False)) for g in range(n)], i), i=i)
        else:
            ob(r == "unsat", "unknown", "solver unknown (alignment)")
    # alignment is not accidental: circuit i does NOT diagonalise the next basis (must be sat)
    X, Z = bases[1]
    ex = [lxor_all([land(a[g], X[qb][g]) for g in range(n)]) for qb in range(n)]
    ez = [lxor_all([land(a[g], Z[qb][g]) for g in range(n)]) for qb in range(n)]
    r, _ = q.check([lor_all(ztab.push(ztab.P(ex, ez, 0), gl[0]).x)])
    out["twin"] = (r == "sat")
    # ---- cost truthfulness
    costs = [circmetrics.two_qubit_count(g) for g in gl]
    depths = [circmetrics.two_qubit_depth(g, n) for g in gl]
    ob(info.get("num circuits") == 2 ** n + 1, "cost", "num circuits reported %r" % info.get("num circuits"))
    ob(info.get("max two-qubit count") == max(costs), "cost", "max two-qubit count reported %r actual %d" % (info.get("max two-qubit count"), max(costs)))
    ob(info.get("max two-qubit depth") == max(depths), "cost", "max two-qubit depth reported %r actual %d" % (info.get("max two-qubit depth"), max(depths)))
    avg = info.get("average two-qubit count")
    ok_avg = avg is not None and abs(Fraction(avg).limit_denominator(10 ** 6) - Fraction(sum(costs), 2 ** n + 1)) < Fraction(1, 10 ** 9)
    ob(ok_avg, "cost", "average two-qubit count reported %r actual %s" % (avg, Fraction(sum(costs), 2 ** n + 1)))
    es = coupling_spec.edge_set(n, conn)
    for i, g in enumerate(gl):
        off = [x_ for x_ in g if len(x_[1]) > 2 or (len(x_[1]) == 2 and (min(x_[1]), max(x_[1])) not in es)]
        ob(not off, "connectivity", "MUB circuit %d has %s off the coupling graph" % (i, off[:1]), i=i)
    for i, b in enumerate(mubs):
        try:
            rc = circmetrics.two_qubit_count(ztab.gates_of(scn.get_readout_circuit(stn.Stabilizer(list(b)), conn)))
        except Exception as e:
            rc = -1
        ob(rc >= 0 and costs[i] <= rc, "readout-cost", "MUB circuit %d needs %d two-qubit gates, the library's readout circuit for the same basis %d" % (i, costs[i], rc), i=i)
    # ---- history: mutate everything returned, ask again
    snap = (copy.deepcopy(mubs), [ztab.gates_of(c) for c in circs], dict(info))
    for b in mubs:
        b.reverse()
        b[0] = "#"
    mubs.reverse()
    for c in circs:
        c.x(0)
        c.measure_all()
    circs.pop()
    info["max two-qubit count"] = -7
    m2 = mc.get_mubs(n, conn)
    c2 = [ztab.gates_of(c, allow_measure=True) for c in mc.get_mub_circuits(n, conn)]
    i2 = mc.get_mub_info(n, conn)
    ob(m2 == snap[0] and c2 == snap[1] and i2 == snap[2], "history", "after the caller mutated earlier results, get_mubs/get_mub_circuits/get_mub_info return something different")
    out["samples"].append(dict(n=n, conn=conn, bases=len(mubs), first_basis=snap[0][0], costs=costs[:5], info=snap[2]))
    out["q"] = dict(n=q.n, t=q.t, verdicts=q.verdicts)
    return out


def run(tier, seed):
    ck = harness.Check(PID, tier, seed)
    ck.encode("mub_circuits.get_mubs", "mub_circuits.get_mub_circuits", "mub_circuits.get_mub_info", "circuit_lookup.mub_circuit_lookup/MUBInfo/parse_circuit",
              "stabilizer.Stabilizer.validate", "stabilizer_circuits.get_readout_circuit")
    ck.bounds += ["all 20 configurations, all 2^n+1 bases (both tiers)", "partition: one query over a symbolic Pauli (2n bits) covers all 4^n-1 operators",
                  "alignment: per basis one query over a symbolic coefficient vector covers all 2^n group elements"]
    ck.outside += ["signs of the diagonalised operators (the property says +/-Z-type)"]
    ck.validated += ztab.validate_against_qiskit(seed=seed, trials=100)
    twin = True
    cands = []
    for job, r in harness.pmap(_config, list(ADVERTISED)):
        qd = r.get("q", dict(n=0, t=0.0, verdicts={}))
        ck.count("%d-%s" % job, n_queries=qd["n"], solver_s=qd["t"], obligations=r["obligations"], discharged=r["discharged"], verdicts=qd["verdicts"],
                 paths=2 ** job[0] + 1, sig=["%d-%s:%d" % (job[0], job[1], i) for i in range(2 ** job[0] + 1)])
        twin = twin and r.get("twin", False)
        for s in r["samples"]:
            ck.sample("config", s)
        for p in r["problems"]:
            if p["kind"] == "unknown":
                ck.harness_error(p["what"])
                continue
            key = "%s %d-%s %s" % (p["kind"], p["n"], p["conn"], p.get("i", p.get("px", "")))
            cands.append((key, p, "%d-%s: %s" % (p["n"], p["conn"], p["what"])))
    ck.candidates(cands[:30])
    ck.vacuity_twin("alignment query is satisfiable for a misaligned (basis, circuit) pair", twin)
    ck.exhaustive = True
    return ck.finish()


# ------------------------------------------------------------------------------------------------ replay
def replay(case):
    from .. import dense
    from htstabilizer import mub_circuits as mc
    from htstabilizer.stabilizer import Stabilizer
    from htstabilizer.stabilizer_circuits import get_readout_circuit
    import itertools
    n, conn, kind = case["n"], case["conn"], case["kind"]
    mubs = mc.get_mubs(n, conn)
    circs = mc.get_mub_circuits(n, conn)
    info = mc.get_mub_info(n, conn)
    if kind == "count":
        return not (len(mubs) == 2 ** n + 1 == len(circs) and all(len(b) == n for b in mubs)), "counts %d %d" % (len(mubs), len(circs))

    def group(b):
        els = set()
        cols = [_parse(p) for p in b]
        for a in range(2 ** n):
            x = [0] * n
            z = [0] * n
            for g in range(n):
                if (a >> g) & 1:
                    x = [u ^ v for u, v in zip(x, cols[g][0])]
                    z = [u ^ v for u, v in zip(z, cols[g][1])]
            els.add((tuple(x), tuple(z)))
        return els
    if kind == "basis":
        b = mubs[case["i"]]
        cols = [_parse(p) for p in b]
        if not all(c[3] and len(c[0]) == n for c in cols):
            return True, "malformed strings %s" % b
        comm = all(sum(cols[g][0][k] * cols[h][1][k] + cols[g][1][k] * cols[h][0][k] for k in range(n)) % 2 == 0 for g in range(n) for h in range(n))
        return not (comm and len(group(b)) == 2 ** n), "basis %d %s: commuting %s, group size %d" % (case["i"], b, comm, len(group(b)))
    if kind == "partition":
        p = (tuple(case["px"]), tuple(case["pz"]))
        k = sum(1 for b in mubs if p in group(b))
        return k != 1, "Pauli %s lies in %d basis groups" % (p, k)
    if kind == "align":
        i = case["i"]
        gates = dense.gates_of(circs[i])
        U = np.zeros((2 ** n, 2 ** n), dtype=complex)
        for bb in range(2 ** n):
            e = np.zeros(2 ** n, dtype=complex)
            e[bb] = 1
            U[:, bb] = dense.run(n, gates, e)
        for (x, z) in group(mubs[i]):
            lab = "".join("IXZY"[a + 2 * b] for a, b in zip(x, z))
            M = U @ dense.pauli_matrix(lab) @ U.conj().T
            if np.abs(M - np.diag(np.diag(M))).max() > 1e-9:
                return True, "circuit %d does not diagonalise %s of basis %d" % (i, lab, i)
        return False, "aligned"
    gl = [dense.gates_of(c) for c in circs]
    costs = [circmetrics.two_qubit_count(g) for g in gl]
    depths = [circmetrics.two_qubit_depth(g, n) for g in gl]
    if kind == "cost":
        ok = info["num circuits"] == 2 ** n + 1 and info["max two-qubit count"] == max(costs) and info["max two-qubit depth"] == max(depths) \
            and abs(info["average two-qubit count"] - sum(costs) / (2 ** n + 1)) < 1e-9
        return not ok, "reported %s; actual max count %d, max depth %d, average %.6f" % (info, max(costs), max(depths), sum(costs) / (2 ** n + 1))
    if kind == "connectivity":
        es = coupling_spec.edge_set(n, conn)
        off = [x for x in gl[case["i"]] if len(x[1]) == 2 and (min(x[1]), max(x[1])) not in es]
        return bool(off), "off-graph %s" % off[:1]
    if kind == "readout-cost":
        i = case["i"]
        rc = circmetrics.two_qubit_count(dense.gates_of(get_readout_circuit(Stabilizer(list(mubs[i])), conn)))
        return costs[i] > rc, "MUB circuit %d: %d two-qubit gates, readout circuit: %d" % (i, costs[i], rc)
    if kind == "history":
        snap = (copy.deepcopy(mubs), [dense.gates_of(c) for c in circs], dict(info))
        for b in mubs:
            b.reverse()
            b[0] = "#"
        mubs.reverse()
        for c in circs:
            c.x(0)
            c.measure_all()
        circs.pop()
        info["max two-qubit count"] = -7
        m2 = mc.get_mubs(n, conn)
        c2 = [dense.gates_of(c) for c in mc.get_mub_circuits(n, conn)]
        i2 = mc.get_mub_info(n, conn)
        return not (m2 == snap[0] and c2 == snap[1] and i2 == snap[2]), "results after caller-side mutation differ from the first results: mubs equal %s, circuits equal %s, info equal %s" % (m2 == snap[0], c2 == snap[1], i2 == snap[2])
    return False, "unknown kind"
