"""C05 - delivered circuits use the minimum possible number of two-qubit gates.

Inductive argument (DESIGN.md §C05): let phi(class) be a potential with phi(class 0) = 0.  If
  (b) for every class c, coupled pair e, local Cliffords L before and M after:  phi(class(M CZ_e L |G_c>)) <= phi(c)+1
then every state reachable with k two-qubit gates has phi <= k (competitor circuits of ANY length), i.e. the true
optimum of class d is >= phi(d).  (b) is one exists-query per source class c: "is some class d with phi(d) >= phi(c)+2
reachable in one step?" - unsat for all c proves it.  A sat model lowers phi(d) and yields a witness circuit that is
replayed on the native library; the sweep is iterated to the fixpoint, so every non-optimal entry is listed with its
true optimum."""
import json, os, time
from .. import harness, loader, tables, ztab, lcq, circmetrics, coupling_spec
from ..core import var, land, lxor, lor_all, land_all, leq, evaluate
from ..coupling_spec import NCLASSES, ADVERTISED

PID = "C05"
_G = {}


def _layer_gate_table():
    """symplectic 2x2 action (a,b,c,d) -> shortest h/s gate word realising it (derived with ztab, not from the library)"""
    import itertools
    tab = {}
    for k in range(0, 4):
        for word in itertools.product("hs", repeat=k):
            gates = [(g, [0]) for g in word]
            px = ztab.push(ztab.P([1], [0]), gates)
            pz = ztab.push(ztab.P([0], [1]), gates)
            # x' = a x + b z ; z' = c x + d z  acting on (x,z) of an arbitrary Pauli: image of X is (a,c), of Z is (b,d)
            key = (px.x[0], pz.x[0], px.z[0], pz.z[0])
            tab.setdefault(key, list(word))
    assert len(tab) == 6
    return tab


def _one_step(c):
    """query for source class c under the current potential; -> dict"""
    n, conn = _G["n"], _G["conn"]
    phi, adjs, edges = _G["phi"], _G["adjs"], _G["edges"]
    K = len(phi)
    D = [d for d in range(K) if phi[d] >= phi[c] + 2]
    out = dict(c=c, verdict="skip", D=len(D), t=0.0)
    if not D:
        return out
    q = lcq.Q()
    X, Z = lcq.graph_tab(adjs[c])
    L, lcons = lcq.layer_vars(n, "l")
    M, mcons = lcq.layer_vars(n, "m")
    e = [[0] * n for _ in range(n)]
    for i in range(n):
        for j in range(i + 1, n):
            e[i][j] = e[j][i] = var("g%d_%d" % (i, j))
    target = lor_all([land_all([e[i][j] if adjs[d][i][j] else e[i][j] ^ 1 for i in range(n) for j in range(i + 1, n)]) for d in D])
    alts = []
    sel = []
    for k, (i, j) in enumerate(edges):
        X1, Z1 = lcq.apply_layer(L, X, Z, [i, j])
        X2, Z2 = lcq.cz(X1, Z1, i, j)
        X3, Z3 = lcq.apply_layer(M, X2, Z2)
        s = var("e%d" % k)
        sel.append(s)
        alts.append(land(s, land_all(lcq.in_graph_group(e, X3, Z3))))
    r, env = q.check(lcons + mcons + [target, lor_all(alts)], want_model=True)
    out.update(verdict=r, t=q.t)
    if r == "sat":
        # identify edge and target from the model by evaluation
        ek = None
        for k, (i, j) in enumerate(edges):
            if evaluate(alts[k], env):
                ek = k
                break
        gbits = [[int(evaluate(e[i][j], env)) if i != j else 0 for j in range(n)] for i in range(n)]
        d = next(dd for dd in D if adjs[dd] == gbits)
        i, j = edges[ek]
        out.update(d=d, edge=[i, j], L=[[int(evaluate(l, env)) for l in L[qb]] for qb in (i, j)],
                   Mlayer=[[int(evaluate(l, env)) for l in M[qb]] for qb in range(n)])
    return out


def _predecessor(d):
    """sat-query: is class d reachable in one step from some class c with phi(c) = phi(d)-1 ?  (re-derives the
    witness step of a listed finding)"""
    n = _G["n"]
    phi, adjs, edges = _G["phi"], _G["adjs"], _G["edges"]
    K = len(phi)
    C = [c for c in range(K) if phi[c] == phi[d] - 1]
    q = lcq.Q()
    L, lcons = lcq.layer_vars(n, "l")
    M, mcons = lcq.layer_vars(n, "m")
    s_adj = [[0] * n for _ in range(n)]
    for i in range(n):
        for j in range(i + 1, n):
            s_adj[i][j] = s_adj[j][i] = var("s%d_%d" % (i, j))
    source = lor_all([land_all([s_adj[i][j] if adjs[c][i][j] else s_adj[i][j] ^ 1 for i in range(n) for j in range(i + 1, n)]) for c in C])
    X, Z = lcq.graph_tab(s_adj)
    alts = []
    for k, (i, j) in enumerate(edges):
        X1, Z1 = lcq.apply_layer(L, X, Z, [i, j])
        X2, Z2 = lcq.cz(X1, Z1, i, j)
        X3, Z3 = lcq.apply_layer(M, X2, Z2)
        alts.append(land_all(lcq.in_graph_group(adjs[d], X3, Z3)))
    r, env = q.check(lcons + mcons + [source, lor_all(alts)], want_model=True)
    out = dict(d=d, verdict=r, t=q.t)
    if r == "sat":
        ek = next(k for k in range(len(edges)) if evaluate(alts[k], env))
        sb = [[int(evaluate(s_adj[i][j], env)) if i != j else 0 for j in range(n)] for i in range(n)]
        c = next(cc for cc in C if adjs[cc] == sb)
        i, j = edges[ek]
        out.update(c=c, edge=[i, j], L=[[int(evaluate(l, env)) for l in L[qb]] for qb in (i, j)],
                   Mlayer=[[int(evaluate(l, env)) for l in M[qb]] for qb in range(n)])
    return out


def _witness_gates(chain, gate_tab, ents):
    """chain: list of steps (c, edge, L) ending at the class of interest; first c's table circuit is the base"""
    c0 = chain[0]["c"]
    gates = [(g, list(qs)) for g, qs in ents[c0]["gates"]]
    for st in chain:
        for qb, l in zip(st["edge"], st["L"]):
            for g in gate_tab[tuple(l)]:
                gates.append((g, [qb]))
        gates.append(("cz", list(st["edge"])))
        # the post layer maps the state exactly onto the target's table graph state (up to signs), so that the
        # next step's pre-CZ layer, which was derived for that graph state, applies
        for qb, l in enumerate(st["M"]):
            for g in gate_tab[tuple(l)]:
                gates.append((g, [qb]))
    return gates


def _config(ck, n, conn, tier, known_by_cfg, gate_tab, full_fixpoint):
    ents = tables.entries(n, conn)
    K = len(ents)
    cost = [e["cost"] for e in ents]
    adjs = [e["adj"] for e in ents]
    edges = coupling_spec.edges(n, conn)
    cfg = "%d-%s" % (n, conn)
    known = known_by_cfg.get(cfg, {})
    phi = list(cost)
    if not full_fixpoint:
        for d, (tc, opt) in known.items():
            if d < K and cost[d] == tc:
                phi[d] = opt
    ck.obligations += 1
    if cost[0] == 0 and circmetrics.two_qubit_count(ents[0]["gates"]) == 0:
        ck.discharged += 1
    else:
        ck.candidate("%s class=0 product-state-cost" % cfg, dict(kind="product", n=n, conn=conn), "product class has non-zero cost in %s" % cfg)
        phi[0] = 0   # base of the induction: |0..0> needs no two-qubit gate
    _G.update(n=n, conn=conn, phi=phi, adjs=adjs, edges=edges)
    steps = {}          # d -> step dict (c, edge, L) that lowered phi[d]
    sweeps = 0
    nq = 0
    while True:
        sweeps += 1
        changed = False
        _G["phi"] = phi
        todo = list(range(K))
        results = dict(harness.pmap(_one_step, todo))
        verd = {"sat": 0, "unsat": 0, "unknown": 0}
        tsum = 0.0
        for c in todo:
            r = results[c]
            if r["verdict"] == "skip":
                continue
            nq += 1
            verd[r["verdict"]] = verd.get(r["verdict"], 0) + 1
            tsum += r["t"]
            if r["verdict"] == "unknown":
                ck.harness_error("%s: solver unknown on one-step query for class %d" % (cfg, c))
            if r["verdict"] == "sat":
                d = r["d"]
                if phi[d] > phi[c] + 1:
                    phi[d] = phi[c] + 1
                    steps[d] = dict(c=c, edge=r["edge"], L=r["L"], M=r["Mlayer"])
                    changed = True
        ck.count("one-step:" + cfg, n_queries=sum(verd.values()), solver_s=tsum, obligations=verd["unsat"] + verd["sat"],
                 discharged=verd["unsat"], verdicts=verd, paths=sum(verd.values()), sig=["%s:%d:%d" % (cfg, sweeps, c) for c in todo])
        if not changed:
            break
        if sweeps > 40:
            ck.harness_error("%s: fixpoint did not converge" % cfg)
            break
    # ---- non-optimal entries under the final potential
    nonopt = [d for d in range(K) if phi[d] < cost[d]]
    # listed findings that were pre-seeded into phi need their witness step re-derived by a sat query
    need_pred = [d for d in nonopt if d not in steps]
    if need_pred:
        _G["phi"] = phi
        pres = dict(harness.pmap(_predecessor, need_pred))
        verd = {"sat": 0, "unsat": 0, "unknown": 0}
        tsum = 0.0
        for d in need_pred:
            r = pres[d]
            verd[r["verdict"]] = verd.get(r["verdict"], 0) + 1
            tsum += r["t"]
            if r["verdict"] == "sat":
                steps[d] = dict(c=r["c"], edge=r["edge"], L=r["L"], M=r["Mlayer"])
            elif r["verdict"] == "unsat":
                # the listed optimum is no longer attainable: the potential was seeded too low for this entry -> unsound
                ck.harness_error("%s: listed finding class=%d optimum=%d has no one-step predecessor (stale known_findings entry?)" % (cfg, d, phi[d]))
            else:
                ck.harness_error("%s: solver unknown on predecessor query for class %d" % (cfg, d))
        ck.count("witness-step:" + cfg, n_queries=sum(verd.values()), solver_s=tsum, verdicts=verd,
                 sig=["%s:pred:%d" % (cfg, d) for d in need_pred])
    cases = []
    for d in nonopt:
        if d not in steps:
            continue
        chain = []
        cur = d
        guard = 0
        while cur in steps and phi[cur] < cost[cur] and guard < 20:
            chain.append(steps[cur])
            cur = steps[cur]["c"]
            guard += 1
        chain.reverse()
        gates = _witness_gates(chain, gate_tab, ents)
        key = "%s class=%d table=%d optimum=%d" % (cfg, d, cost[d], phi[d])
        cases.append((key, dict(kind="nonoptimal", n=n, conn=conn, cls=d, table_cost=cost[d], optimum=phi[d], witness=gates),
                      "%s: class %d has table cost %d but a %d-gate circuit exists" % (cfg, d, cost[d], phi[d])))
    ck.extra.setdefault("per_configuration", {})[cfg] = dict(classes=K, sweeps=sweeps, nonoptimal=len(nonopt),
                                                             edges=len(edges), max_gap=max([cost[d] - phi[d] for d in nonopt] or [0]))
    # obligations that failed (sat one-step) are accounted as undischarged; they become candidates here
    return cases


def run(tier, seed):
    ck = harness.Check(PID, tier, seed)
    ck.encode("circuit_lookup.stabilizer_circuit_lookup", "circuit_lookup.parse_circuit", "graph.Graph.decompress",
              "stabilizer_circuits.get_preparation_circuit (replay of witnesses)")
    full = (tier == "thorough")
    ck.bounds += ["all 20 configurations, all classes, competitor circuits of any length (inductive one-step condition)",
                  "per source class: all coupled pairs x all 36 pre-CZ Clifford pairs x all 6^n post layers x all target classes with potential >= +2, in one query",
                  "thorough: fixpoint from the raw table costs (re-discovers every non-optimal entry); quick: potential seeded with the listed findings' optima, one verifying sweep + witness re-derivation"]
    ck.bounds += ["delivered circuits: product states (class 0) through the real prep/readout pipeline for every configuration with seeded generator permutations, one symbolic Clifford and symbolic sign: zero two-qubit gates; compress on user-style programs reaches the table cost"]
    ck.outside += ["that the class representatives cover all stabilizer states (C06 certificates + Van den Nest et al. 2004, pen and paper)",
                   "competitors using gates other than single-qubit Cliffords, CX, CZ, SWAP"]
    ck.lemmas += ["induction on the number of two-qubit gates (pen and paper) over the solver-checked one-step condition",
                  "CX = H CZ H and SWAP = 3 CX, so CZ steps with arbitrary local layers cover all competitor gate sets"]
    ck.validated += ztab.validate_against_qiskit(seed=seed, trials=100)
    gate_tab = _layer_gate_table()
    known_by_cfg = {}
    for k in ck.known:
        if k.get("status", "known") == "known" and "cfg" in k:
            known_by_cfg.setdefault(k["cfg"], {})[k["cls"]] = (k["table_cost"], k["optimum"])
    all_cases = []
    for (n, conn) in ADVERTISED:
        t = time.time()
        cases = _config(ck, n, conn, tier, known_by_cfg, gate_tab, full)
        all_cases += cases
        print("  %d-%s: %d non-optimal, %.1fs" % (n, conn, len(cases), time.time() - t), flush=True)
    ck.candidates(all_cases)
    # vacuity twin: the one-step query must be satisfiable when the target set is unconstrained (+1 step reachable)
    _G.update(n=3, conn="linear", adjs=[e["adj"] for e in tables.entries(3, "linear")], edges=coupling_spec.edges(3, "linear"))
    _G["phi"] = [0, 2, 2, 2, 2]
    tw = _one_step(0)
    ck.vacuity_twin("one-step query reaches a strictly entangled class when the potential forbids it", tw["verdict"] == "sat")
    if all_cases:
        ck.sample("nonoptimal", dict(key=all_cases[0][0], witness=all_cases[0][1]["witness"]))
    # ---- the delivered circuits themselves, where minimality has a closed form: product states need NO two-qubit gate
    # whatever the generator order / signs (pipeline, symbolic sign, seeded permutations), and compress must reach the
    # table cost on user-style programs (idle qubits, SWAP-routed pairs)
    from .. import pipeline, core
    from . import _pipeprop, c07
    import random as _r
    pjobs = []
    for (n, conn) in ADVERTISED:
        for t in range(3):
            r2 = _r.Random(seed * 101 + n * 7 + len(conn) + t)
            perm = list(range(n))
            r2.shuffle(perm)
            pjobs.append(dict(family="Fc", n=n, conn=conn, cls=0, adj=[[0] * n for _ in range(n)], base_layer=[r2.randrange(6) for _ in range(n)], window=[r2.randrange(n)],
                              B=[[1 if perm[h] == g else 0 for h in range(n)] for g in range(n)], signs=("affine", 1), seed=seed + t, resign=False))
    _pipeprop.drive(ck, tier, seed, "prep", {"C04", "C01"}, pjobs, label="product states (prep)")
    _pipeprop.drive(ck, tier, seed, "readout", {"C04"}, pjobs, label="product states (readout)")
    ccands = []
    for job, r in harness.pmap(c07._routed_job, [(n, conn, seed * 31 + 7 * n + len(conn), tier) for (n, conn) in ADVERTISED if n >= 3]):
        res = core.Result.from_json(r["res"])
        ck.add("compress user-style programs %d-%s" % job[:2], res, sample=0)
        for c in r["cands"]:
            ccands.append(("compress n=%d %s %s" % (c["n"], c["conn"], c["gates"]), c, "compress, %d-%s program %s: %s" % (c["n"], c["conn"], c["gates"], c["label"])))
    ck.candidates(ccands[:10])
    hist = tables.history_check()
    ck.obligations += 1
    if not hist:
        ck.discharged += 1
    for h in hist[:5]:
        ck.candidate("history %d %s->%s id=%d" % (h["n"], h["first"], h["second"], h["id"]), dict(kind="history", **h), h["what"])
    return ck.finish()


# ------------------------------------------------------------------------------------------------ replay
def replay(case):
    if case.get("kind") == "history":
        return tables.replay_history(case)
    if case.get("kind") == "pipeline":
        from . import _pipeprop
        return _pipeprop.replay(case)
    if case.get("kind") == "program":
        from . import c07
        return c07.replay(case)
    """Build the witness circuit with qiskit, hand the state it prepares to the real get_preparation_circuit and
    compare two-qubit counts; the witness is also checked to respect the coupling graph and (dense simulation)
    to prepare the same state as the delivered circuit."""
    import numpy as np
    from qiskit import QuantumCircuit
    from .. import dense
    from htstabilizer.stabilizer import Stabilizer
    from htstabilizer.stabilizer_circuits import get_preparation_circuit
    from htstabilizer.circuit_lookup import stabilizer_circuit_lookup
    n, conn = case["n"], case["conn"]
    if case["kind"] == "product":
        info = stabilizer_circuit_lookup(n, conn, 0)
        return (info.cost != 0), "class 0 cost %d" % info.cost
    gates = [(g, list(qs)) for g, qs in case["witness"]]
    es = coupling_spec.edge_set(n, conn)
    for g, qs in gates:
        if len(qs) == 2 and (min(qs), max(qs)) not in es:
            return False, "witness leaves the coupling graph"
    wc = circmetrics.two_qubit_count(gates)
    qc = QuantumCircuit(n)
    for g, qs in gates:
        getattr(qc, g)(*qs)
    stab = Stabilizer(qc)
    delivered = get_preparation_circuit(stab, conn)
    dg = dense.gates_of(delivered)
    dc = circmetrics.two_qubit_count(dg)
    psi_w = dense.run(n, gates)
    psi_d = dense.run(n, dg)
    fid = abs(np.vdot(psi_w, psi_d)) ** 2
    if abs(fid - 1) > 1e-9:
        return False, "witness and delivered circuit prepare different states (fidelity %.3f)" % fid
    return (dc > wc), "delivered circuit uses %d two-qubit gates, witness circuit %d (same state, same coupling graph)" % (dc, wc)
