"""C18 - GF(2) linear algebra routines, real code on a fully symbolic m x n matrix."""
import itertools, random
import numpy as np
from .. import harness, loader, core, symnp
from ..core import Ctx, explore, var, land, lxor, lor, lor_all, land_all, lxor_all, leq, bit0, SV, SB, mk

PID = "C18"


def _lit(e):
    """literal of a 0/1 entry; entries wider than one bit make the obligation false"""
    if isinstance(e, SV):
        return e.bits[0] if len(e.bits) == 1 else None
    if isinstance(e, SB):
        return e.l
    e = int(e)
    return e if e in (0, 1) else None


def _mat_lits(M, rows, cols, problems, what):
    out = []
    A = np.asarray(M)
    if A.shape != (rows, cols):
        problems.append("%s has shape %s, expected %s" % (what, A.shape, (rows, cols)))
        return None
    for r in range(rows):
        row = []
        for c in range(cols):
            l = _lit(A[r, c])
            if l is None:
                problems.append("%s[%d,%d] is not a 0/1 value" % (what, r, c))
                return None
            row.append(l)
        out.append(row)
    return out


def _mv(M, x):
    return [lxor_all([land(M[r][c], x[c]) for c in range(len(x))]) for r in range(len(M))]


def _mm(A, B):
    return [[lxor_all([land(A[i][k], B[k][j]) for k in range(len(B))]) for j in range(len(B[0]))] for i in range(len(A))]


def _routine_obligations(ctx, f2, A, A0, m, n, tag="", light=False):
    """run rref / rank / rref_and_basis_change / null_space on A (entries = literals A0) and state every
    obligation of C18 against independent Boolean specs"""
    problems = []
    info = {}
    x = [var("x%s%d" % (tag, i)) for i in range(n)]

    def obligation(label, lit):
        ctx.prove(tag + label, lit, info=dict(label=tag + label))

    try:
        R, piv = f2.rref(A)
    except Exception as e:
        obligation("rref raised %s" % type(e).__name__, 0)
        return {"error": repr(e)}
    Rl = _mat_lits(R, m, n, problems, "rref result")
    try:
        piv = [int(p) for p in piv]
    except Exception:
        piv = None
    info["pivots"] = piv
    shape_ok = Rl is not None and piv is not None and all(piv[i] < piv[i + 1] for i in range(len(piv) - 1)) \
        and len(piv) <= min(m, n) and all(0 <= p < n for p in piv)
    if not shape_ok:
        obligation("rref shape/pivot list malformed: %s" % problems, 0)
        return info
    k = len(piv)
    cons = []
    for r in range(k):
        p = piv[r]
        cons.append(Rl[r][p])
        cons += [Rl[r][c] ^ 1 for c in range(p)]
        cons += [Rl[i][p] ^ 1 for i in range(m) if i != r]
    for r in range(k, m):
        cons += [Rl[r][c] ^ 1 for c in range(n)]
    obligation("rref result is in reduced row echelon form with the reported pivots", land_all(cons))
    ax0 = lor_all(_mv(A0, x)) ^ 1
    rx0 = lor_all(_mv(Rl, x)) ^ 1
    if not light:
        obligation("rref preserves the row space (kernel equality for every vector x)", leq(ax0, rx0))
    # (light mode, library-size shapes: row-space equality follows from the certificate M*A == RREF with M invertible,
    #  stated below; the x-quantified formulation is hard for CDCL at 36 x 24)
    Al = _mat_lits(A, m, n, problems, "input after rref")
    obligation("rref does not modify its argument", land_all([leq(Al[r][c], A0[r][c]) for r in range(m) for c in range(n)]) if Al else 0)
    try:
        rk = f2.rank(A)
    except Exception as e:
        rk = repr(e)
    obligation("rank == number of pivots == dimension of the row space (got %s)" % (rk,), 1 if (isinstance(rk, int) and rk == k) else 0)
    try:
        R2, M, Minv = f2.rref_and_basis_change(A)
        R2l = _mat_lits(R2, m, n, problems, "rref_and_basis_change result")
        Ml = _mat_lits(M, m, m, problems, "M")
        Mil = _mat_lits(Minv, m, m, problems, "M_inv")
    except Exception as e:
        R2l = Ml = Mil = None
        problems.append("rref_and_basis_change raised %r" % (e,))
    if R2l is None or Ml is None or Mil is None:
        obligation("rref_and_basis_change malformed: %s" % problems, 0)
    else:
        obligation("rref_and_basis_change returns the same RREF as rref", land_all([leq(R2l[r][c], Rl[r][c]) for r in range(m) for c in range(n)]))
        MA = _mm(Ml, A0)
        obligation("M*A == RREF", land_all([leq(MA[r][c], R2l[r][c]) for r in range(m) for c in range(n)]))
        MMi = _mm(Ml, Mil)
        obligation("M*M_inv == I", land_all([leq(MMi[r][c], 1 if r == c else 0) for r in range(m) for c in range(m)]))
        Al = _mat_lits(A, m, n, problems, "input after rref_and_basis_change")
        obligation("rref_and_basis_change does not modify its argument", land_all([leq(Al[r][c], A0[r][c]) for r in range(m) for c in range(n)]) if Al else 0)
    try:
        Kn = f2.null_space(A)
    except Exception as e:
        obligation("null_space raised %s" % type(e).__name__, 0)
        return info
    free = [c for c in range(n) if c not in piv]
    Ka = np.asarray(Kn)
    typed = (Ka.ndim == 2 and Ka.shape == (n - k, n) and isinstance(Kn, symnp.SymArray) and np.issubdtype(Kn.dtype, np.integer))
    info["null_space_shape"] = list(Ka.shape)
    obligation("null_space returns a well-typed (n-rank) x n integer array (got shape %s dtype %s)" % (Ka.shape, getattr(Kn, "dtype", None)), 1 if typed else 0)
    if typed:
        Kl = _mat_lits(Kn, n - k, n, problems, "null_space result")
        if Kl is None:
            obligation("null_space entries malformed %s" % problems, 0)
        else:
            inker = [lor_all(_mv(A0, Kl[i])) ^ 1 for i in range(n - k)]
            obligation("every returned vector lies in the kernel", land_all(inker))
            if not light:
                comb = [lxor_all([land(x[free[i]], Kl[i][c]) for i in range(n - k)]) for c in range(n)]
                spans = land_all([leq(comb[c], x[c]) for c in range(n)])
                obligation("the returned vectors span exactly the kernel (every kernel vector is their combination)", lor(ax0 ^ 1, spans))
            else:
                ident = land_all([leq(Kl[i][free[j]], 1 if i == j else 0) for i in range(n - k) for j in range(n - k)])
                obligation("the n-rank returned kernel vectors are independent (identity pattern on the free columns), hence a basis of the kernel", ident)
    return info


def _shape_job(job):
    m, n, nominal, preset = job
    f2 = loader.sym("f2_algebra")
    loader.snapshot_state("f2_algebra")
    nom = {"int8": np.int8, "int64": np.int64}[nominal]
    cands = []

    def fn():
        ctx = Ctx.cur
        loader.reset_state("f2_algebra")
        A = symnp.sym_matrix("a", m, n, nominal=nom)
        A0 = [[var("a_%d_%d" % (r, c)) for c in range(n)] for r in range(m)]
        for (r, c), val in preset:      # static partition of the input space over worker processes
            ctx.assume(A0[r][c] if val else A0[r][c] ^ 1)
        return _routine_obligations(ctx, f2, A, A0, m, n)

    res = explore(fn)
    for v in res.violations:
        env = v["model"]
        Am = [[int(env.get("a_%d_%d" % (r, c), False)) for c in range(n)] for r in range(m)]
        cands.append(dict(kind="matrix", m=m, n=n, dtype=nominal, A=Am, label=v["label"]))
    res.violations = []
    res.leaves = res.leaves[:3]
    # reachability twin
    def twin():
        A = symnp.sym_matrix("a", m, n, nominal=nom)
        f2.rref(A)
        Ctx.cur.prove("twin", 0)
    tw = explore(twin, max_paths=1)
    return dict(res=res.to_json(), cands=cands, twin=bool(tw.violations))


def _seq_job(job):
    """history: the routines run on a first matrix B (any shape), then the obligations are stated for a second
    matrix A - for all pairs (B, A).  A routine that keeps state across calls is caught here."""
    (m1, n1), (m2, n2) = job
    f2 = loader.sym("f2_algebra")
    loader.snapshot_state("f2_algebra")
    cands = []

    def fn():
        ctx = Ctx.cur
        loader.reset_state("f2_algebra")
        B = symnp.sym_matrix("b", m1, n1)
        for name in ("rref", "rank", "rref_and_basis_change", "null_space"):
            try:
                getattr(f2, name)(B)
            except Exception:
                pass
        A = symnp.sym_matrix("a", m2, n2)
        A0 = [[var("a_%d_%d" % (r, c)) for c in range(n2)] for r in range(m2)]
        return _routine_obligations(ctx, f2, A, A0, m2, n2, tag="after an earlier call: ")
    res = explore(fn)
    for v in res.violations:
        env = v["model"]
        Bm = [[int(env.get("b_%d_%d" % (r, c), False)) for c in range(n1)] for r in range(m1)]
        Am = [[int(env.get("a_%d_%d" % (r, c), False)) for c in range(n2)] for r in range(m2)]
        cands.append(dict(kind="sequence", first=Bm, m=m2, n=n2, dtype="int8", A=Am, label=v["label"]))
    res.violations = []
    res.leaves = res.leaves[:1]
    return dict(res=res.to_json(), cands=cands)


def _large_job(job):
    """shapes the library itself uses (up to 36 x 24): a seeded structured matrix (random low-rank product or
    staircase) with k symbolic entries; all obligations as for the small shapes, plus agreement of the NATIVE routines
    (machine integers) with the symbolic run on a model of every path"""
    m, n, k, seed = job
    f2 = loader.sym("f2_algebra")
    f2n = loader.native("f2_algebra")
    rnd = random.Random(seed)
    style = seed % 3
    if style == 0:
        r = rnd.randrange(1, min(m, n) + 1)
        P = [[rnd.randrange(2) for _ in range(r)] for _ in range(m)]
        Q = [[rnd.randrange(2) for _ in range(n)] for _ in range(r)]
        base = [[sum(P[i][t] * Q[t][j] for t in range(r)) % 2 for j in range(n)] for i in range(m)]
    elif style == 1:
        base = [[1 if (j >= i * n // m and (i + j) % 3 != 1) or j == (i * n) // m else 0 for j in range(n)] for i in range(m)]
        base = base[::-1] if rnd.random() < 0.5 else base
    else:
        base = [[rnd.randrange(2) for _ in range(n)] for _ in range(m)]
    cells = rnd.sample([(i, j) for i in range(m) for j in range(n)], k)
    names = ["a_%d_%d" % c for c in cells]
    core.tt_setup(names)
    cands = []

    def fn():
        ctx = Ctx.cur
        loader.reset_state("f2_algebra")
        arr = np.empty((m, n), dtype=object)
        A0 = [[base[i][j] for j in range(n)] for i in range(m)]
        for i in range(m):
            for j in range(n):
                arr[i, j] = base[i][j]
        for (i, j) in cells:
            A0[i][j] = var("a_%d_%d" % (i, j))
            arr[i, j] = mk((A0[i][j],))
        A = symnp._wrap(arr, np.int8)
        info = _routine_obligations(ctx, f2, A, A0, m, n, light=True)
        env = ctx.model_env()
        An = np.array([[int(core.evaluate(A0[i][j], env)) if A0[i][j] not in (0, 1) else A0[i][j] for j in range(n)] for i in range(m)], dtype=np.int8)
        same = True
        try:
            Rn, pn = f2n.rref(An.copy())
            same = same and [int(p) for p in pn] == info.get("pivots")
            same = same and int(f2n.rank(An.copy())) == len(info.get("pivots") or [])
            Kn = f2n.null_space(An.copy())
            same = same and list(Kn.shape) == info.get("null_space_shape")
        except Exception:
            same = False
        fixed = land_all([leq(A0[i][j], int(An[i, j])) for (i, j) in cells])
        ctx.prove("native rref/rank/null_space (machine integers) agree with the symbolic run on a model of this path", lor(fixed ^ 1, 1 if same else 0))
        return info
    res = explore(fn)
    for v in res.violations[:2]:
        env = v["model"]
        Am = [[base[i][j] for j in range(n)] for i in range(m)]
        for (i, j) in cells:
            Am[i][j] = int(bool(env.get("a_%d_%d" % (i, j), False)))
        cands.append(dict(kind="matrix", m=m, n=n, dtype="int8", A=Am, label=v["label"]))
    res.violations = []
    res.leaves = res.leaves[:1]
    return dict(res=res.to_json(), cands=cands)


def _gauss_oracle(rows, n):
    """plain-Python Gauss-Jordan over GF(2) on integer-packed rows -> (rref rows as lists, pivot columns)"""
    vals = [sum((int(v) & 1) << (n - 1 - j) for j, v in enumerate(r)) for r in rows]
    piv = []
    h = 0
    for c in range(n):
        bit = 1 << (n - 1 - c)
        p_ = next((i for i in range(h, len(vals)) if vals[i] & bit), None)
        if p_ is None:
            continue
        vals[h], vals[p_] = vals[p_], vals[h]
        for i in range(len(vals)):
            if i != h and vals[i] & bit:
                vals[i] ^= vals[h]
        piv.append(c)
        h += 1
        if h == len(vals):
            break
    return [[(v >> (n - 1 - j)) & 1 for j in range(n)] for v in vals], piv


def _native_large_sweep(seed):
    """concrete side condition at the shapes the library uses: native routines vs the big-int oracle"""
    rnd = random.Random(seed)
    bad = []
    ok = 0
    for (m, n) in [(36, 24), (24, 36), (34, 24), (33, 8), (8, 33), (16, 16), (25, 20)]:
        for t in range(6):
            if t % 3 == 0:
                A = [[1 if j == (i * n) // m or (j > (i * n) // m and (i * 7 + j * 3 + t) % 5 == 0) else 0 for j in range(n)] for i in range(m)]
            elif t % 3 == 1:
                r = rnd.randrange(1, min(m, n) + 1)
                P = [[rnd.randrange(2) for _ in range(r)] for _ in range(m)]
                Q = [[rnd.randrange(2) for _ in range(n)] for _ in range(r)]
                A = [[sum(P[i][k] * Q[k][j] for k in range(r)) % 2 for j in range(n)] for i in range(m)]
            else:
                A = [[rnd.randrange(2) for _ in range(n)] for _ in range(m)]
            if t >= 3:
                A = A[::-1]
            rep, detail = replay(dict(kind="matrix", m=m, n=n, dtype="int8", A=A))
            if rep:
                bad.append(dict(kind="matrix", m=m, n=n, dtype="int8", A=A, label="native routines wrong on a %dx%d matrix: %s" % (m, n, detail)))
            else:
                ok += 1
    return bad, ok


def _dtype_sweep(seed):
    """concrete side condition: the native routines on seeded matrices in every integer / bool dtype against the
    brute-force oracle used by replay -> list of failing cases"""
    rnd = np.random.RandomState(seed)
    bad = []
    n_ok = 0
    for _ in range(30):
        m, n = rnd.randint(1, 6), rnd.randint(1, 6)
        A = rnd.randint(0, 2, (m, n))
        for dt in ("int8", "int16", "int32", "int64", "uint8", "uint16", "uint32", "uint64", "bool"):
            ok, detail = replay(dict(kind="matrix", m=m, n=n, dtype=dt, A=A.tolist()))
            if ok:
                bad.append(dict(kind="matrix", m=m, n=n, dtype=dt, A=A.tolist(), label="native routines wrong for dtype %s: %s" % (dt, detail)))
            else:
                n_ok += 1
    return bad, n_ok


def _ops_job(job):
    """mat_mul / add on two symbolic matrices; trf_swap_rows / trf_add_row with symbolic row indices"""
    m, n = job
    f2 = loader.sym("f2_algebra")
    cands = []

    def fn():
        ctx = Ctx.cur
        A = symnp.sym_matrix("a", m, n)
        B = symnp.sym_matrix("b", n, m)
        C = symnp.sym_matrix("c", m, n)
        A0 = [[var("a_%d_%d" % (r, c)) for c in range(n)] for r in range(m)]
        B0 = [[var("b_%d_%d" % (r, c)) for c in range(m)] for r in range(n)]
        C0 = [[var("c_%d_%d" % (r, c)) for c in range(n)] for r in range(m)]
        pr = []
        P = _mat_lits(f2.mat_mul(A, B), m, m, pr, "mat_mul")
        ctx.prove("mat_mul is the GF(2) product", land_all([leq(P[i][j], _mm(A0, B0)[i][j]) for i in range(m) for j in range(m)]) if P else 0, info=dict(label="mat_mul"))
        S = _mat_lits(f2.add(A, C), m, n, pr, "add")
        ctx.prove("add is the GF(2) sum", land_all([leq(S[i][j], lxor(A0[i][j], C0[i][j])) for i in range(m) for j in range(n)]) if S else 0, info=dict(label="add"))
        w = max(1, (m - 1).bit_length())
        i = core.symint("i", w)
        j = core.symint("j", w)
        ctx.assume(core.litof(i < m))
        ctx.assume(core.litof(j < m))
        ii, jj = int(i), int(j)
        T = _mat_lits(f2.trf_swap_rows(ii, jj, m), m, m, pr, "trf_swap_rows")
        TA = _mm(T, A0) if T else None
        want = [A0[jj] if r == ii else A0[ii] if r == jj else A0[r] for r in range(m)]
        ctx.prove("trf_swap_rows(i,j)*A swaps rows i and j", land_all([leq(TA[r][c], want[r][c]) for r in range(m) for c in range(n)]) if T else 0, info=dict(label="swap %d %d" % (ii, jj)))
        if ii != jj:
            T = _mat_lits(f2.trf_add_row(ii, jj, m), m, m, pr, "trf_add_row")
            TA = _mm(T, A0) if T else None
            want = [[lxor(A0[r][c], A0[ii][c]) if r == jj else A0[r][c] for c in range(n)] for r in range(m)]
            ctx.prove("trf_add_row(i,j)*A adds row i to row j", land_all([leq(TA[r][c], want[r][c]) for r in range(m) for c in range(n)]) if T else 0, info=dict(label="addrow %d %d" % (ii, jj)))
        return {"i": ii, "j": jj}
    res = explore(fn)
    for v in res.violations:
        cands.append(dict(kind="ops", m=m, n=n, label=v["label"], info=v["info"], model={k: v["model"][k] for k in list(v["model"])[:200]}))
    res.violations = []
    res.leaves = res.leaves[:2]
    return dict(res=res.to_json(), cands=cands)


def _translator_validation(seed):
    """instrumented vs native on concrete inputs (repo tests' matrix + seeded random, three dtypes)"""
    f2s = loader.sym("f2_algebra")
    f2n = loader.native("f2_algebra")
    rnd = np.random.RandomState(seed)
    count = 0
    mats = [np.array([[1, 0, 0, 1, 0, 1], [0, 1, 0, 0, 1, 1], [1, 1, 1, 0, 1, 0], [1, 0, 1, 0, 1, 1]])]
    for _ in range(40):
        m, n = rnd.randint(1, 7), rnd.randint(1, 7)
        mats.append(rnd.randint(0, 2, (m, n)))
    mats += [np.eye(3, dtype=int), np.zeros((2, 3), dtype=int)]
    for A in mats:
        for dt in (np.int8, np.int64, bool):
            An = A.astype(dt)
            As = symnp.SymArray(A.astype(np.int64), dt) if dt is not bool else None
            if As is None:
                continue
            for name in ("rref", "rank", "rref_and_basis_change", "null_space"):
                a = getattr(f2n, name)(An.copy())
                b = getattr(f2s, name)(As.copy())
                if not _same(a, b):
                    raise AssertionError("translator mismatch in %s on %s (%s): %r vs %r" % (name, A.tolist(), dt, a, b))
                count += 1
    return count


def _same(a, b):
    if isinstance(a, tuple):
        return len(a) == len(b) and all(_same(x, y) for x, y in zip(a, b))
    if isinstance(a, list):
        return list(a) == [int(x) for x in b]
    if isinstance(a, np.ndarray):
        bb = np.asarray(b)
        if a.shape != bb.shape:
            return False
        return all(int(a[idx]) == int(bb[idx]) for idx in np.ndindex(*a.shape))
    return a == b


def run(tier, seed):
    ck = harness.Check(PID, tier, seed)
    ck.encode("f2_algebra.rref", "f2_algebra.rank", "f2_algebra.rref_and_basis_change", "f2_algebra.null_space",
              "f2_algebra.mat_mul", "f2_algebra.add", "f2_algebra.trf_swap_rows", "f2_algebra.trf_add_row")
    if tier == "quick":
        shapes = [(m, n) for m in range(1, 5) for n in range(1, 5)]
        shapes64 = [(2, 3), (3, 3), (4, 2)]
    else:
        shapes = [(m, n) for m in range(1, 6) for n in range(1, 6) if m * n <= 20] + [(6, 3), (3, 6), (6, 2), (2, 6)]
        shapes64 = [(m, n) for m in range(1, 5) for n in range(1, 5)]
    ck.bounds += ["every binary matrix of every shape in %s with nominal dtype int8 (all entries symbolic)" % (shapes,),
                  "shapes %s additionally with nominal dtype int64 (other branch of rref_and_basis_change)" % (shapes64,),
                  "library-size shapes (36x24, 24x36, 34x24, 33x8, 16x16, 20x24, 12x24, 24x12): seeded structured matrices (low-rank products, staircases, random) with 4 symbolic entries each, incl. agreement of the NATIVE routines on a model of every path",
                  "side conditions (concrete, run first): native routines in 9 integer/bool dtypes on seeded small matrices against brute force; native routines on seeded structured matrices at library-size shapes against a big-integer Gauss-Jordan oracle",
                  "mat_mul/add/trf_* : shapes m,n<=3 (quick) / <=4 (thorough), row indices symbolic",
                  "history: two-call sequences (all routines on a first symbolic matrix, obligations on a second) for pairs of small shapes (m*n<=4 quick, <=6 thorough)"]
    ck.outside += ["fully symbolic matrices larger than the listed shapes (the library uses up to 36x24; path count grows ~x8 per row/column)",
                   "uniqueness of the RREF of a row space is a theorem (shape + row-space equality imply it)",
                   "int8 wrap-around: entries are modelled as non-negative mathematical integers; max bit-width observed is reported"]
    ck.assumptions += ["entries are 0/1 (documented precondition)"]
    ck.validated += _translator_validation(seed)
    cands = []
    pre = []
    bad0, ok0 = _native_large_sweep(seed)
    bad1, ok1 = _dtype_sweep(seed)
    ck.validated += ok0 + ok1
    for c in (bad0 + bad1)[:6]:
        pre.append(("native %s %dx%d %s" % (c["dtype"], c["m"], c["n"], hash(str(c["A"])) & 0xFFFFF), c, c["label"]))
    ck.candidates(pre)
    early0 = []
    big = [(36, 24), (24, 36), (34, 24), (33, 8), (16, 16), (20, 24), (12, 24), (24, 12)]
    ljobs = [(mm, nn, 4, seed * 100 + i * 7 + t) for i, (mm, nn) in enumerate(big) for t in range(3 if tier == "quick" else 12)]
    for job, r in harness.pmap(_large_job, ljobs):
        res = core.Result.from_json(r["res"])
        ck.add("library-size shape %dx%d" % job[:2], res, sample=0)
        for c in r["cands"][:2]:
            early0.append(("%s %dx%d %s" % (c["label"][:60], c["m"], c["n"], hash(str(c["A"])) & 0xFFFF), c, "%s on a %dx%d matrix" % (c["label"], c["m"], c["n"])))
    early = []
    ck.candidates((early0 + early)[:12])      # reported at once: these families are the cheap, machine-level ones
    jobs = []
    for (m, n, nominal) in [(m, n, "int8") for m, n in shapes] + [(m, n, "int64") for m, n in shapes64]:
        # partition big shapes on the first column(s): 2^p sub-jobs, each explores its share of the matrices
        p = 0 if m * n < 9 else min(m * n, 4 if m * n < 20 else 6 if m * n < 30 else 7)
        cells = [(r, c) for c in range(n) for r in range(m)][:p]
        for bits in itertools.product([0, 1], repeat=p):
            jobs.append((m, n, nominal, tuple(zip(cells, bits))))
    jobs.sort(key=lambda j: -(j[0] * j[1]))
    twins = True
    for job, r in harness.pmap(_shape_job, jobs):
        res = core.Result.from_json(r["res"])
        ck.add("shape %dx%d %s" % job[:3], res, sig_of=lambda leaf: leaf, sample=1 if not any(v for _, v in job[3]) else 0)
        twins = twins and r["twin"]
        for c in r["cands"]:
            cands.append(("%s %dx%d %s A=%s" % (c["label"][:60], c["m"], c["n"], c["dtype"], c["A"]), c, "%s for A=%s (%s)" % (c["label"], c["A"], c["dtype"])))
    ck.vacuity_twin("rref harness reaches its obligations", twins)
    small = [(m, n) for m in range(1, 7) for n in range(1, 7) if m * n <= (4 if tier == "quick" else 6)]
    seq = [(a, b) for a in small for b in small if tier == "thorough" or a[0] * a[1] == b[0] * b[1] or a[0] * a[1] <= 2]
    seq += [(a, b) for a in [(2, 3), (3, 2), (1, 6), (6, 1)] for b in [(2, 3), (3, 2), (1, 6), (6, 1)] if (a, b) not in seq]
    for job, r in harness.pmap(_seq_job, seq):
        res = core.Result.from_json(r["res"])
        ck.add("sequence %s then %s" % job, res, sample=0)
        for c in r["cands"][:3]:
            cands.append(("%s first=%s A=%s" % (c["label"][:70], c["first"], c["A"]), c, "%s: after the routines ran on %s, A=%s" % (c["label"], c["first"], c["A"])))
    lim = 3 if tier == "quick" else 4
    for job, r in harness.pmap(_ops_job, [(m, n) for m in range(1, lim + 1) for n in range(1, lim + 1)]):
        res = core.Result.from_json(r["res"])
        ck.add("ops %dx%d" % job, res, sample=0)
        for c in r["cands"]:
            cands.append(("ops %s %dx%d" % (c["label"], c["m"], c["n"]), c, "%s on %dx%d" % (c["label"], c["m"], c["n"])))
    seen = set()
    uniq = []
    for c in cands:
        if c[0] not in seen:
            seen.add(c[0])
            uniq.append(c)
    ck.candidates(uniq[:40])
    ck.extra["max_symbolic_bit_width"] = core.STAT["max_width"]
    return ck.finish()


def _replay_large(f2, A, A_before, rows, m, n):
    want, piv = _gauss_oracle(rows, n)
    dim = len(piv)
    try:
        R, p2 = f2.rref(A)
        if [[int(v) for v in r] for r in np.array(R)] != want or [int(x) for x in p2] != piv:
            return True, "rref differs from the unique reduced row echelon form (pivots %s vs %s)" % (list(p2), piv)
        rk = f2.rank(A)
        if rk != dim:
            return True, "rank %s, dimension of the row space %d" % (rk, dim)
        R2, M, Mi = f2.rref_and_basis_change(A)
        if [[int(v) for v in r] for r in np.array(R2)] != want:
            return True, "rref_and_basis_change RREF wrong"
        if not np.array_equal((M.astype(int) @ A.astype(int)) % 2, np.array(want)) or not np.array_equal((M.astype(int) @ Mi.astype(int)) % 2, np.eye(m, dtype=int)):
            return True, "M*A != RREF or M*M_inv != I"
        K = f2.null_space(A)
        if not (isinstance(K, np.ndarray) and K.ndim == 2 and K.shape == (n - dim, n) and np.issubdtype(K.dtype, np.integer)):
            return True, "null_space shape %s dtype %s, kernel dimension %d" % (getattr(K, "shape", None), getattr(K, "dtype", None), n - dim)
        if ((A.astype(int) @ K.astype(int).T) % 2).any():
            return True, "null_space vector outside the kernel"
        if K.shape[0] and len(_gauss_oracle([list(r) for r in K], n)[1]) != n - dim:
            return True, "null_space vectors are dependent"
        if not np.array_equal(A, A_before):
            return True, "input modified"
    except Exception as e:
        return True, "raised %r" % (e,)
    return False, "all routines correct on this matrix"


# ------------------------------------------------------------------------------------------------ replay
def replay(case):
    from htstabilizer import f2_algebra as f2
    if case["kind"] == "ops":
        m, n = case["m"], case["n"]
        rnd = np.random.RandomState(1)
        for _ in range(50):
            A = rnd.randint(0, 2, (m, n)).astype(np.int8)
            B = rnd.randint(0, 2, (n, m)).astype(np.int8)
            C = rnd.randint(0, 2, (m, n)).astype(np.int8)
            if not np.array_equal(f2.mat_mul(A, B), (A.astype(int) @ B.astype(int)) % 2):
                return True, "mat_mul wrong on %s %s" % (A.tolist(), B.tolist())
            if not np.array_equal(f2.add(A, C), (A + C) % 2):
                return True, "add wrong"
            for i in range(m):
                for j in range(m):
                    W = A.copy()
                    W[[i, j]] = W[[j, i]]
                    if not np.array_equal(f2.mat_mul(f2.trf_swap_rows(i, j, m), A), W):
                        return True, "trf_swap_rows(%d,%d,%d) wrong" % (i, j, m)
                    if i != j:
                        W = A.copy()
                        W[j] = (W[j] + W[i]) % 2
                        if not np.array_equal(f2.mat_mul(f2.trf_add_row(i, j, m), A), W):
                            return True, "trf_add_row(%d,%d,%d) wrong" % (i, j, m)
        return False, "ops agree on 50 random instances"
    if case["kind"] == "sequence":
        B = np.array(case["first"], dtype=np.int8)
        for name in ("rref", "rank", "rref_and_basis_change", "null_space"):
            try:
                getattr(f2, name)(B.copy())
            except Exception:
                pass
    A = np.array(case["A"], dtype=np.dtype(case["dtype"])).reshape(case["m"], case["n"])
    m, n = A.shape
    A_before = A.copy()
    # brute-force oracles
    rows = [tuple(int(v) & 1 for v in r) for r in A]
    if m > 12 or n > 12:
        return _replay_large(f2, A, A_before, rows, m, n)
    span = {tuple([0] * n)}
    for r in rows:
        span |= {tuple(a ^ b for a, b in zip(s, r)) for s in span}
    dim = len(span).bit_length() - 1
    if n <= 12:
        kernel = [x for x in itertools.product([0, 1], repeat=n) if all(sum(a * b for a, b in zip(r, x)) % 2 == 0 for r in rows)]
    else:
        kernel = None      # too large to enumerate: kernel checked by membership + dimension instead
    try:
        R, piv = f2.rref(A)
        R = np.array(R)
        rspan = {tuple([0] * n)}
        for r in R:
            rspan |= {tuple(a ^ int(b) for a, b in zip(s, r)) for s in rspan}
        if rspan != span:
            return True, "rref changes the row space"
        # RREF shape
        k = len(piv)
        for r in range(k):
            p = piv[r]
            if R[r, p] != 1 or any(R[r, :p]) or any(R[i, p] for i in range(m) if i != r):
                return True, "rref result not reduced at pivot %d" % p
        if any(R[k:].reshape(-1)) or list(piv) != sorted(set(piv)):
            return True, "rref result malformed"
        if f2.rank(A) != dim:
            return True, "rank %d, dimension of row space %d" % (f2.rank(A), dim)
        R2, M, Mi = f2.rref_and_basis_change(A)
        if not np.array_equal(np.array(R2), R):
            return True, "rref_and_basis_change RREF differs from rref"
        if not np.array_equal((M.astype(int) @ A.astype(int)) % 2, R2) or not np.array_equal((M.astype(int) @ Mi.astype(int)) % 2, np.eye(m, dtype=int)):
            return True, "M*A != RREF or M*M_inv != I"
        K = f2.null_space(A)
        if not (isinstance(K, np.ndarray) and K.ndim == 2 and K.shape == (n - dim, n) and np.issubdtype(K.dtype, np.integer)):
            return True, "null_space returned shape %s dtype %s for a kernel of dimension %d in GF(2)^%d" % (getattr(K, "shape", None), getattr(K, "dtype", None), n - dim, n)
        kspan = {tuple([0] * n)}
        for r in K:
            kspan |= {tuple(a ^ int(b) for a, b in zip(s, r)) for s in kspan}
        if kernel is not None and kspan != set(kernel):
            return True, "null_space does not span exactly the kernel"
        if kernel is None:
            if len(kspan) != 2 ** (n - dim) or any(any(sum(a * b for a, b in zip(r, x)) % 2 for r in rows) for x in list(kspan)[:4096]):
                return True, "null_space does not give a basis of the kernel (dimension %d expected)" % (n - dim)
        if not np.array_equal(A, A_before):
            return True, "input modified"
    except Exception as e:
        return True, "raised %r" % (e,)
    return False, "all routines correct on this matrix"
