"""C03 - the readout circuit diagonalises the whole stabilizer group and does not depend on the signs."""
from .. import harness, pipeline
from . import _pipeprop

PID = "C03"
replay = _pipeprop.replay


def run(tier, seed):
    ck = harness.Check(PID, tier, seed)
    ck.encode("stabilizer_circuits.get_readout_circuit", "stabilizer_circuits._get_preparation_circuit_modulo_phase",
              "lc_classes.determine_lc_class*", "circuit_lookup.stabilizer_circuit_lookup/parse_circuit", "graph.Graph.decompress",
              "find_local_clifford_layer.find_local_clifford_layer", "find_local_clifford_layer.local_clifford_layer_to_circuit", "f2_algebra.*")
    ck.bounds += ["F3: n=2 every valid tableau; n=3: %s partitions of the tableau space; signs poisoned (any read is a violation)" % ("a seeded 10 of the 512" if tier == "quick" else "all 64 of 64"),
                  "per path one query over a symbolic coefficient vector: all 2^n group elements of all inputs sharing the path",
                  "Fc: n=4..6 per class graph, layer symbolic on a window, seeded basis change (as C01)"]
    ck.bounds += ["Fc0: EVERY class of EVERY configuration once (table graph, seeded concrete local-Clifford layer - thorough: one symbolic qubit for n<=5 -, seeded basis change, 2 sign vectors)"]
    ck.outside += ["n>=4: layers outside the window / arbitrary bases (lemmas L1-L4, DESIGN.md §5)"]
    ck.assumptions += ["validity of the input is assumed through an independent Boolean spec, not through Stabilizer.validate()", "ztab gate rules (validated against qiskit on this run)"]
    jobs = pipeline.f3_jobs(tier, seed) + pipeline.fc_jobs(tier, seed) + pipeline.fc0_jobs(tier, seed)
    _pipeprop.drive(ck, tier, seed, "readout", {"C03"}, jobs)
    _pipeprop.vacuity(ck, "readout", {"C03"})
    return ck.finish()
