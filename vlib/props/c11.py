"""C11 - tomography of a qubit subset reconstructs that subset's reduced state (symbolic N-qubit state, symbolic list)."""
import itertools, random
import numpy as np
from .. import harness, loader, core, ztab, tables
from ..core import Ctx, explore, land_all, lor_all
from ..coupling_spec import ADVERTISED, NCLASSES
from . import _tomoprop, _tomoreplay

PID = "C11"
replay = _tomoreplay.replay


def _job(job):
    m, conn, N, lists, seed = job
    core.tt_disable()
    pr = _tomoprop.Prover()
    rnd = random.Random(seed)
    cands = []
    stats = dict(pairs=0)

    def fn():
        ctx = Ctx.cur
        w = max(1, (N - 1).bit_length())
        qs = [core.symint("q%d" % i, w) for i in range(m)]
        for q in qs:
            ctx.assume(core.litof(q < N))
        for a in range(m):
            for b in range(a + 1, m):
                ctx.assume(core.litof(qs[a] != qs[b]))
        if lists is not None:
            ctx.assume(lor_all([land_all([core.litof(qs[i] == l[i]) for i in range(m)]) for l in lists]))
        mq = [int(q) for q in qs]            # every feasible ordered list (realisation)
        variant = ["plain", "cregs", "metadata", "plain"][(sum((i + 1) * q for i, q in enumerate(mq)) + N) % 4]
        problems, st = _tomoprop.full_tomography(N, conn, mq, pr, with_density=(N <= 4), variant=variant)
        stats["pairs"] += st.get("pairs", 0)
        ctx.prove("full-state tomography on the ordered list %s of a %d-qubit register (preparation circuit object: %s): %s" % (mq, N, variant, problems[:1]), 0 if problems else 1, info=dict(mq=mq, which="tomography", variant=variant))
        # stabilizer measurement on the same list
        cid = rnd.randrange(NCLASSES[m])
        adj = tables.rep_graph(m, cid)
        R = [[1 if i == j else 0 for j in range(m)] for i in range(m)]
        ph = [rnd.randrange(2) for _ in range(m)]
        problems2, st2 = _tomoprop.stabilizer_measurement(N, conn, mq, R, adj, ph, pr, with_density=(N <= 4), variant=variant)
        stats["pairs"] += st2.get("pairs", 0)
        ctx.prove("stabilizer measurement on the ordered list %s of a %d-qubit register: %s" % (mq, N, problems2[:1]), 0 if problems2 else 1, info=dict(mq=mq, which="stabilizer", R=R, S=adj, phases=ph, variant=variant))
        # a Z-only stabilizer (empty readout circuit) on the same list
        phz = [rnd.randrange(2) for _ in range(m)]
        Zero = [[0] * m for _ in range(m)]
        problems3, st3 = _tomoprop.stabilizer_measurement(N, conn, mq, Zero, R, phz, pr, with_density=False, variant=variant)
        stats["pairs"] += st3.get("pairs", 0)
        ctx.prove("stabilizer measurement of a Z-only stabilizer on the ordered list %s of a %d-qubit register: %s" % (mq, N, problems3[:1]), 0 if problems3 else 1,
                  info=dict(mq=mq, which="stabilizer", R=Zero, S=R, phases=phz, variant=variant))
        return {"mq": mq}
    res = explore(fn)
    for v in res.violations[:3]:
        i = v["info"]
        cands.append(dict(kind="tomo", which=i["which"], N=N, conn=conn, mq=i["mq"], R=i.get("R"), S=i.get("S"), phases=i.get("phases"), variant=i.get("variant", "plain"), label=v["label"]))
    res.violations = []
    res.leaves = res.leaves[:2]
    return dict(res=res.to_json(), cands=cands, q=dict(n=pr.n, t=pr.t, verdicts=pr.verdicts), pairs=stats["pairs"])


def run(tier, seed):
    ck = harness.Check(PID, tier, seed)
    ck.encode("tomography.CircuitResult (marginalisation)", "tomography.full_state_tomography_circuits", "tomography.stabilizer_measurement_circuit",
              "tomography.FullStateTomographyFitter", "tomography.StabilizerMeasurementFitter", "tomography._compute_expectation_value")
    ck.bounds += ["N-qubit state symbolic (4^N real unknowns), measured list = symbolic ordered m-subset (realised): every ordered list for m=2 (N<=4) and m=3 (N<=%d); seeded non-ascending / contiguous-out-of-order lists for m=3..4, N<=5%s" % (4 if tier == "quick" else 5, "" if tier == "quick" else " and m=5, N=6"),
                  "both fitters, both modes (reduced / full-register), asked in both orders on the same fitter object; density matrices for N<=4",
                  "the preparation circuit OBJECT varies with the list: plain, owning a classical register (count keys '<meas> <creg>'), carrying metadata"]
    ck.outside += ["N>5 (4^N unknowns; the marginalisation code has no N-dependent branch - a reason, not a proof)", "registers with additional classical registers"]
    ck.validated += ztab.validate_against_qiskit(seed=seed, trials=100)
    rnd = random.Random(seed + 11)
    jobs = []
    for (m, conn) in ADVERTISED:
        if m == 2:
            for N in (2, 3, 4):
                jobs.append((m, conn, N, None, seed))
        elif m == 3:
            for N in (3, 4) + ((5,) if tier == "thorough" else ()):
                jobs.append((m, conn, N, None, seed))
            if tier == "quick":
                jobs.append((m, conn, 5, [[4, 3, 1], [2, 4, 3], [0, 1, 4], [3, 1, 2]], seed))
        elif m == 4:
            lists5 = [[4, 3, 2, 1], [1, 2, 4, 3], [0, 2, 3, 4], [3, 0, 4, 1]] + [rnd.sample(range(5), 4) for _ in range(2 if tier == "quick" else 10)]
            jobs.append((m, conn, 5, lists5, seed))
            jobs.append((m, conn, 4, [[3, 2, 1, 0], [1, 0, 3, 2], [0, 1, 2, 3]] + [rnd.sample(range(4), 4) for _ in range(2)], seed))
        elif m == 5 and tier == "thorough":
            jobs.append((m, conn, 6, [[5, 4, 3, 2, 1], [0, 2, 1, 4, 5]], seed))
    cands = []
    for job, r in harness.pmap(_job, jobs):
        res = __import__("vlib.core", fromlist=["Result"]).Result.from_json(r["res"])
        ck.add("%d-%s on N=%d" % job[:3], res, sample=1 if job[2] == 3 and job[0] == 2 else 0)
        ck.count("LRA %d-%s N=%d" % job[:3], n_queries=r["q"]["n"], solver_s=r["q"]["t"], verdicts=r["q"]["verdicts"], obligations=r["pairs"], discharged=r["pairs"] if not r["cands"] else 0)
        for c in r["cands"]:
            cands.append(("%s %d-%s N=%d list=%s" % (c["which"], job[0], job[1], c["N"], c["mq"]), c, c["label"]))
    seen = set()
    ck.candidates([c for c in cands if not (c[0] in seen or seen.add(c[0]))][:20])
    return ck.finish()
