"""C15 - group predicates agree with the mathematical definitions (real Stabilizer methods, symbolic tableaux)."""
import itertools
import numpy as np
from .. import harness, loader, core, symnp, spec
from ..core import Ctx, explore, var, land, lxor, lor, lor_all, land_all, lxor_all, leq, mk, SV, SB

PID = "C15"


def _lit(e):
    if isinstance(e, SV):
        return e.bits[0] if len(e.bits) == 1 else None
    if isinstance(e, SB):
        return e.l
    e = int(e)
    return e if e in (0, 1) else None


def _in_span(X, Z, x, z):
    """(x,z) [lists of literals per qubit] is a GF(2) combination of the columns of (X,Z): expanded over all 2^m coefficient vectors"""
    n, m = len(X), len(X[0])
    alts = []
    for a in range(2 ** m):
        cols = [g for g in range(m) if (a >> g) & 1]
        alts.append(land_all([leq(x[q], lxor_all([X[q][g] for g in cols])) for q in range(n)] + [leq(z[q], lxor_all([Z[q][g] for g in cols])) for q in range(n)]))
    return lor_all(alts)


def _equiv_job(job):
    n, preset = job
    st = loader.sym("stabilizer")
    core.tt_disable()
    cands = []

    def fn():
        ctx = Ctx.cur
        XA, ZA = spec.sym_tableau(n, prefix="a")
        XB, ZB = spec.sym_tableau(n, prefix="b")
        ctx.assume(spec.valid(XA, ZA))
        ctx.assume(spec.valid(XB, ZB))
        for name, val in preset:          # static partition of A's tableau (first generators) over worker processes
            ctx.assume(var(name) if val else var(name) ^ 1)
        if not ctx.feasible():
            return {"n": n, "empty_partition": True}
        A = spec.make_stabilizer(st, *spec.to_symarrays(XA, ZA), poison_phases=True)
        B = spec.make_stabilizer(st, *spec.to_symarrays(XB, ZB), poison_phases=True)
        try:
            r = A.is_equivalent_mod_phase(B)
        except spec.PhasesTouched:
            ctx.prove("equivalence modulo signs must not read the signs", 0)
            return {}
        except Exception as e:
            ctx.prove("is_equivalent_mod_phase raised %s" % type(e).__name__, 0)
            return {}
        rl = core.litof(r) if not isinstance(r, (bool, np.bool_)) else int(bool(r))
        same = land_all([_in_span(XA, ZA, [XB[q][j] for q in range(n)], [ZB[q][j] for q in range(n)]) for j in range(n)])
        ctx.prove("is_equivalent_mod_phase is true exactly when both generate the same group up to signs", leq(rl, same))
        return {"n": n, "answer": bool(rl == 1) if rl in (0, 1) else None}
    res = explore(fn)
    for v in res.violations[:3]:
        XA, ZA = spec.sym_tableau(n, prefix="a")
        XB, ZB = spec.sym_tableau(n, prefix="b")
        Ra, Sa = spec.env_tableau(XA, ZA, v["model"])
        Rb, Sb = spec.env_tableau(XB, ZB, v["model"])
        cands.append(dict(kind="equiv", n=n, RA=Ra, SA=Sa, RB=Rb, SB=Sb, label=v["label"]))
    res.violations = []
    leaves = res.leaves
    res.leaves = res.leaves[:1]
    answers = set(l.get("answer") for l in leaves if l)
    empty = any(l.get("empty_partition") for l in leaves if l)
    return dict(res=res.to_json(), cands=cands, twin=(answers >= {True, False}) or empty)


def _expand_job(n):
    st = loader.sym("stabilizer")
    core.tt_disable()
    cands = []

    def fn():
        ctx = Ctx.cur
        loader.reset_state("stabilizer")
        X, Z = spec.sym_tableau(n, prefix="a")
        A = spec.make_stabilizer(st, *spec.to_symarrays(X, Z), poison_phases=True)
        EX, EZ = A.expand()

        def formula(EX, EZ, X, Z, what):
            ex, ez = np.asarray(EX), np.asarray(EZ)
            if ex.shape != (n, 2 ** n) or ez.shape != (n, 2 ** n):
                ctx.prove(what + "expand() returns two n x 2^n arrays", 0)
                return
            cons = []
            for i in range(2 ** n):
                cols = [j for j in range(n) if (i >> j) & 1]
                for q in range(n):
                    a, b = _lit(ex[q, i]), _lit(ez[q, i])
                    if a is None or b is None:
                        ctx.prove(what + "expand() entries are 0/1", 0)
                        return
                    cons.append(leq(a, lxor_all([X[q][j] for j in cols])))
                    cons.append(leq(b, lxor_all([Z[q][j] for j in cols])))
            ctx.prove(what + "column i of expand() is the product of the generators selected by the bits of i (each subset exactly once)", land_all(cons))
        formula(EX, EZ, X, Z, "")
        if n <= 4:
            ex, ez = np.asarray(EX), np.asarray(EZ)
            distinct = []
            for i in range(2 ** n):
                for k in range(i + 1, 2 ** n):
                    distinct.append(lor_all([lxor(_lit(ex[q, i]), _lit(ex[q, k])) for q in range(n)] + [lxor(_lit(ez[q, i]), _lit(ez[q, k])) for q in range(n)]))
            ctx.prove("for independent generators the 2^n listed elements are pairwise different", lor(spec.independent(X, Z) ^ 1, land_all(distinct)))
        # history: a second stabilizer of the same size is expanded; the first listing must still be the first group
        X2, Z2 = spec.sym_tableau(n, prefix="b")
        B = spec.make_stabilizer(st, *spec.to_symarrays(X2, Z2), poison_phases=True)
        EX2, EZ2 = B.expand()
        formula(EX2, EZ2, X2, Z2, "second stabilizer: ")
        formula(EX, EZ, X, Z, "after expanding another stabilizer, the earlier listing: ")
        Rl = [[_lit(np.asarray(A.R)[q, j]) for j in range(n)] for q in range(n)]
        ctx.prove("expand() does not modify the stabilizer", land_all([leq(Rl[q][j], X[q][j]) for q in range(n) for j in range(n)]))
        return {"n": n}
    res = explore(fn)
    for v in res.violations[:3]:
        X, Z = spec.sym_tableau(n, prefix="a")
        X2, Z2 = spec.sym_tableau(n, prefix="b")
        Ra, Sa = spec.env_tableau(X, Z, v["model"])
        Rb, Sb = spec.env_tableau(X2, Z2, v["model"])
        cands.append(dict(kind="expand", n=n, RA=Ra, SA=Sa, RB=Rb, SB=Sb, label=v["label"]))
    res.violations = []
    res.leaves = res.leaves[:1]
    return dict(res=res.to_json(), cands=cands)


def _entangled_job(job):
    n, q = job
    st = loader.sym("stabilizer")
    core.tt_disable()
    cands = []

    def fn():
        ctx = Ctx.cur
        X, Z = spec.sym_tableau(n, prefix="a")
        ctx.assume(spec.valid(X, Z))
        A = spec.make_stabilizer(st, *spec.to_symarrays(X, Z), phases=symnp.sym_vector("sg", n))
        try:
            r = A.is_qubit_entangled(q)
        except Exception as e:
            ctx.prove("is_qubit_entangled raised %s" % type(e).__name__, 0)
            return {"q": q}
        # definition: q is a tensor factor  <=>  the group contains a weight-one element supported on q
        alts = []
        for a in range(1, 2 ** n):
            cols = [g for g in range(n) if (a >> g) & 1]
            onq = lor(lxor_all([X[q][g] for g in cols]), lxor_all([Z[q][g] for g in cols]))
            off = lor_all([lor(lxor_all([X[k][g] for g in cols]), lxor_all([Z[k][g] for g in cols])) for k in range(n) if k != q])
            alts.append(land(onq, off ^ 1))
        product = lor_all(alts)
        ctx.prove("is_qubit_entangled(%d) is true exactly when qubit %d is not a tensor factor of the state" % (q, q), leq(1 if r else 0, product ^ 1))
        return {"q": q, "entangled": bool(r)}
    res = explore(fn)
    for v in res.violations[:3]:
        X, Z = spec.sym_tableau(n, prefix="a")
        Ra, Sa = spec.env_tableau(X, Z, v["model"])
        cands.append(dict(kind="entangled", n=n, q=q, RA=Ra, SA=Sa, label=v["label"]))
    res.violations = []
    both = len(set(l.get("entangled") for l in res.leaves)) == 2
    res.leaves = res.leaves[:2]
    return dict(res=res.to_json(), cands=cands, both=both)


def _dispatch(job):
    return {"e": _equiv_job, "x": _expand_job, "q": _entangled_job}[job[0]](job[1])


def run(tier, seed):
    ck = harness.Check(PID, tier, seed)
    ck.encode("stabilizer.Stabilizer.is_equivalent_mod_phase", "stabilizer.Stabilizer.expand", "stabilizer.Stabilizer.is_qubit_entangled", "f2_algebra.mat_mul")
    nq = 3
    ne = 4      # n=5 runs into 120 s solver timeouts on the loaded sandbox (validity spec with 31 combinations x 50 variables)
    ck.bounds += ["is_equivalent_mod_phase: both tableaux fully symbolic and valid (independent spec): n=2 one query, n=3 all 64 partitions of A's first generator (complete), n=4: %d seeded partitions (20 of A's 32 bits fixed, B free) of 2^20" % (32 if tier == "quick" else 400),
                  "expand(): tableau fully symbolic (no validity needed), n=2..6, plus a second symbolic stabilizer expanded afterwards (history)",
                  "is_qubit_entangled: tableau symbolic and valid, every qubit, n=2..%d" % ne]
    ck.bounds += ["native side condition (concrete, n=2..6): seeded remixed-equal pairs and near-miss pairs (one extra gate on the last qubits) vs brute-force group comparison"]
    ck.outside += ["is_equivalent_mod_phase for n>=5 and most of n=4 (GF(2) dimension arguments are hard for CDCL: 100 s timeouts without 20 fixed bits), is_qubit_entangled for n>%d (solver time)" % ne, "signs (the predicates are modulo signs; the sign vector is poisoned)"]
    ck.assumptions += ["validity via the independent Boolean spec"]
    import random
    rnd = random.Random(seed)

    def anames(n):
        return [t % (q, g) for g in range(n) for q in range(n) for t in ("ax%d_%d", "az%d_%d")]
    ejobs = [("e", (2, ()))]
    ejobs += [("e", (3, tuple(zip(anames(3)[:6], bits)))) for bits in itertools.product([0, 1], repeat=6)]
    for _ in range(32 if tier == "quick" else 400):
        ejobs.append(("e", (4, tuple((nm, rnd.randrange(2)) for nm in anames(4)[:20]))))
    jobs = ejobs + [("x", n) for n in range(2, 7)] + [("q", (n, q)) for n in range(2, ne + 1) for q in range(n)]
    jobs.sort(key=lambda j: -(j[1] if isinstance(j[1], int) else j[1][0]))

    def nof(j):
        return j[1] if isinstance(j[1], int) else j[1][0]
    cands = []
    twins = True
    both = True
    for job, r in harness.pmap(_dispatch, jobs):
        res = core.Result.from_json(r["res"])
        ck.add({"e": "equivalence", "x": "expand", "q": "entangled"}[job[0]] + " n=%s" % nof(job), res, sample=1 if job[0] != "e" or not job[1][1] else 0)
        if "twin" in r:
            twins = twins and r["twin"]
        if "both" in r and job[0] == "q" and job[1][0] >= 3:
            both = both and r["both"]
        for c in r["cands"]:
            cands.append(("%s n=%d %s %s %s" % (c["kind"], c["n"], c["RA"], c["SA"], c.get("RB")), c, "%s: %s (A: R=%s S=%s%s)" % (c["kind"], c["label"], c["RA"], c["SA"], "; B: R=%s S=%s" % (c["RB"], c["SB"]) if "RB" in c else "")))
    ck.vacuity_twin("equivalence harness: both answers are reachable under the assumptions", twins)
    ck.vacuity_twin("entanglement harness: both answers occur", both)
    ck.candidates(cands[:20])
    # native side condition (machine integers, n up to 6): remixed-equal pairs and near-miss pairs (one extra gate) vs
    # brute-force group comparison
    import random as _r
    from qiskit import QuantumCircuit
    rr = _r.Random(seed + 77)
    stn0 = loader.native("stabilizer")
    nat = 0
    for n in range(2, 7):
        for t in range(12 if tier == "quick" else 60):
            qc = QuantumCircuit(n)
            for _ in range(3 * n):
                g = rr.choice(["h", "s", "cx", "cz"])
                if g in ("cx", "cz"):
                    a, b = rr.sample(range(n), 2)
                    getattr(qc, g)(a, b)
                else:
                    getattr(qc, g)(rr.randrange(n))
            A = stn0.Stabilizer(qc)
            qc2 = qc.copy()
            if t % 2:
                g = rr.choice(["h", "s", "cz"])
                if g == "cz":
                    a, b = rr.sample(range(max(0, n - 3), n), 2) if n >= 3 else (0, 1)
                    qc2.cz(a, b)
                else:
                    getattr(qc2, g)(rr.randrange(max(0, n - 2), n))
            Bm = stn0.Stabilizer(qc2)
            Bmix = spec.random_invertible(n, rr)
            RB = (Bm.R.astype(int) @ np.array(Bmix)) % 2
            SB = (Bm.S.astype(int) @ np.array(Bmix)) % 2
            B = stn0.Stabilizer((RB.astype(np.int8), SB.astype(np.int8)))
            got = bool(A.is_equivalent_mod_phase(B))
            want = _group(A.R.tolist(), A.S.tolist()) == _group(RB.tolist(), SB.tolist())
            ck.obligations += 1
            nat += 1
            if got == want:
                ck.discharged += 1
            else:
                ck.candidate("native equiv n=%d %s %s" % (n, A.R.tolist(), RB.tolist()), dict(kind="equiv", n=n, RA=A.R.tolist(), SA=A.S.tolist(), RB=RB.tolist(), SB=SB.tolist()),
                             "native is_equivalent_mod_phase says %s for two %d-qubit groups that are %s" % (got, n, "equal" if want else "different"))
    ck.validated += nat
    # different qubit counts => False (concrete)
    stn = loader.native("stabilizer")
    ck.obligations += 1
    if stn.Stabilizer(["XX", "ZZ"]).is_equivalent_mod_phase(stn.Stabilizer(["XXI", "ZZI", "IIZ"])) is False:
        ck.discharged += 1
    else:
        ck.candidate("different-sizes", dict(kind="sizes", n=2), "stabilizers on different numbers of qubits reported equivalent")
    return ck.finish()


# ------------------------------------------------------------------------------------------------ replay
def _group(R, S):
    n = len(R)
    els = set()
    for a in range(2 ** n):
        x = [0] * n
        z = [0] * n
        for j in range(n):
            if (a >> j) & 1:
                x = [x[q] ^ R[q][j] for q in range(n)]
                z = [z[q] ^ S[q][j] for q in range(n)]
        els.add((tuple(x), tuple(z)))
    return els


def replay(case):
    from htstabilizer.stabilizer import Stabilizer
    kind = case["kind"]
    if kind == "sizes":
        return Stabilizer(["XX", "ZZ"]).is_equivalent_mod_phase(Stabilizer(["XXI", "ZZI", "IIZ"])) is not False, "sizes"
    n = case["n"]
    A = Stabilizer((np.array(case["RA"], dtype=np.int8), np.array(case["SA"], dtype=np.int8)))
    if kind == "equiv":
        B = Stabilizer((np.array(case["RB"], dtype=np.int8), np.array(case["SB"], dtype=np.int8)))
        got = bool(A.is_equivalent_mod_phase(B))
        want = _group(case["RA"], case["SA"]) == _group(case["RB"], case["SB"])
        return got != want, "is_equivalent_mod_phase says %s, brute-force group comparison says %s" % (got, want)
    if kind == "expand":
        B = Stabilizer((np.array(case["RB"], dtype=np.int8), np.array(case["SB"], dtype=np.int8)))
        EX, EZ = A.expand()

        def ok(EX, EZ, R, S):
            for i in range(2 ** n):
                x = [0] * n
                z = [0] * n
                for j in range(n):
                    if (i >> j) & 1:
                        x = [x[q] ^ R[q][j] for q in range(n)]
                        z = [z[q] ^ S[q][j] for q in range(n)]
                if [int(v) for v in EX[:, i]] != x or [int(v) for v in EZ[:, i]] != z:
                    return False
            return True
        first = ok(EX, EZ, case["RA"], case["SA"])
        EX2, EZ2 = B.expand()
        second = ok(EX2, EZ2, case["RB"], case["SB"])
        later = ok(EX, EZ, case["RA"], case["SA"])
        return not (first and second and later), "first listing correct: %s; second: %s; first listing still correct after the second call: %s" % (first, second, later)
    if kind == "entangled":
        q = case["q"]
        got = bool(A.is_qubit_entangled(q))
        prod = any(all((x[k] or z[k]) == (k == q) for k in range(n)) for (x, z) in _group(case["RA"], case["SA"]))
        return got != (not prod), "is_qubit_entangled(%d) says %s; group contains a weight-one element on qubit %d: %s" % (q, got, q, prod)
    return False, "unknown"
