"""common driver for the tomography properties C10 / C11 / C12 (symbolic state, real fitters)"""
import itertools, random
from fractions import Fraction
import numpy as np
from .. import loader, tomo, ztab, tables, spec
from ..tomo import Lin, unknown_for, exact_counts, FakeResult, pauli_label_q0first, Prover, expected_density, NonLinear


def embed(label_m, mq, N):
    chars = ["I"] * N
    for j, q in enumerate(mq):
        chars[q] = label_m[j]
    return "".join(chars)


def _check_ev(ev, N, mq, full, expected_keys, problems, pairs, what):
    """ev: dict Pauli -> value from the real fitter.  expected_keys: dict key-label -> register label"""
    got = {}
    for P, val in ev.items():
        lab, ph = pauli_label_q0first(P)
        if ph != 0:
            problems.append("%s: key %s carries a phase" % (what, P))
        if lab in got:
            problems.append("%s: duplicate key %s" % (what, lab))
        got[lab] = val
    if set(got) != set(expected_keys):
        missing = sorted(set(expected_keys) - set(got))[:3]
        extra = sorted(set(got) - set(expected_keys))[:3]
        problems.append("%s: %d keys returned, %d expected (missing e.g. %s, unexpected e.g. %s)" % (what, len(got), len(expected_keys), missing, extra))
    for lab, val in got.items():
        if lab in expected_keys:
            try:
                pairs.append((Lin.lift(val), unknown_for(expected_keys[lab]), "%s: value reported for %s (= register operator %s)" % (what, lab, expected_keys[lab])))
            except TypeError as e:
                problems.append("%s: value of %s is not a linear form (%r)" % (what, lab, e))
    return got


def _check_density(dm, got_keys_expected, k, problems, pairs, what):
    D = np.asarray(dm)
    if D.shape != (2 ** k, 2 ** k):
        problems.append("%s: density matrix has shape %s, expected %s" % (what, D.shape, (2 ** k, 2 ** k)))
        return
    E = expected_density([(lab, unknown_for(reg)) for lab, reg in got_keys_expected.items()], k)
    for idx in np.ndindex(2 ** k, 2 ** k):
        try:
            pairs.append((Lin.lift(D[idx]), E[idx], "%s: density matrix entry %s" % (what, idx)))
        except TypeError as e:
            problems.append("%s: entry %s is not a linear form (%r)" % (what, idx, e))
            return


def make_prep(N, variant):
    """preparation-circuit OBJECT variants (the state is injected at the statistics level, the object's shape matters
    to the circuit builders / fitters): plain, owning classical bits, carrying metadata, two quantum registers"""
    from qiskit import QuantumCircuit, QuantumRegister
    if variant == "cregs":
        return QuantumCircuit(N, 2)
    if variant == "metadata":
        qc = QuantumCircuit(N)
        qc.metadata = {"experiment": "tagged", "shots": 1}
        return qc
    if variant == "multireg" and N >= 2:
        return QuantumCircuit(QuantumRegister(1, "a"), QuantumRegister(N - 1, "b"))
    return QuantumCircuit(N)


def _with_cregs(counts, ncl):
    """qiskit formats counts of a circuit with an extra classical register as '<meas bits> <creg bits>'"""
    if not ncl:
        return counts
    return {k + " " + "0" * ncl: v for k, v in counts.items()}


def full_tomography(N, conn, mq, prover, with_density=True, variant="plain", warm=None):
    """real full_state_tomography_circuits + FullStateTomographyFitter on the symbolic state.  -> (problems, stats)"""
    from qiskit import QuantumCircuit
    tm = loader.sym("tomography")
    for mname in ("tomography", "mub_circuits", "stabilizer_circuits", "stabilizer"):
        loader.reset_state(mname)
    m = N if mq is None else len(mq)
    problems, pairs = [], []
    if warm is not None:
        # history step: a complete tomography of the same register size with another connectivity, evaluated in the same
        # interpreter (no reset afterwards); its results are discarded
        try:
            prep0 = make_prep(N, "plain")
            circs0 = tm.full_state_tomography_circuits(prep0, warm, None)
            counts0 = [_with_cregs(exact_counts(ztab.gates_of(c, allow_measure=True), N), prep0.num_clbits) for c in circs0]
            fit0 = tm.FullStateTomographyFitter(FakeResult(counts0), circs0)
            fit0.expectation_values()
            if with_density:
                fit0.density_matrix()
        except NonLinear:
            pass
    prep = make_prep(N, variant if mq is not None else "plain")
    ncl = prep.num_clbits
    circs = tm.full_state_tomography_circuits(prep, conn, mq)
    if len(circs) != 2 ** m + 1:
        return ["expected %d circuits, got %d" % (2 ** m + 1, len(circs))], {}
    if len(prep.data) != 0 or prep.num_clbits != ncl or any(c is prep for c in circs):
        problems.append("full_state_tomography_circuits modified (or returned) the caller's preparation circuit")
    counts = []
    for c in circs:
        if c.num_qubits != N:
            return ["measurement circuit has %d qubits, register has %d" % (c.num_qubits, N)], {}
        counts.append(_with_cregs(exact_counts(ztab.gates_of(c, allow_measure=True), N), ncl))
    mlist = list(range(N)) if mq is None else list(mq)
    labels_m = ["".join(t) for t in itertools.product("IXYZ", repeat=m)]
    exp_sub = {l: embed(l, mlist, N) for l in labels_m}
    exp_full = {embed(l, mlist, N): embed(l, mlist, N) for l in labels_m}
    try:
        if mq is None:
            fit = tm.FullStateTomographyFitter(FakeResult(counts), circs)
            ev = fit.expectation_values()
            _check_ev(ev, N, mq, True, exp_full, problems, pairs, "full register")
            if with_density:
                _check_density(fit.density_matrix(), exp_full, N, problems, pairs, "full register")
        else:
            # both modes, in both call orders, on the same fitter object
            for order in ((False, True), (True, False)):
                fit = tm.FullStateTomographyFitter(FakeResult(counts), circs)
                for full in order:
                    what = "list %s, %s mode (asked %s)" % (mlist, "full-register" if full else "reduced", "first" if full == order[0] else "second")
                    ev = fit.expectation_values(full_hilbert_space=full)
                    _check_ev(ev, N, mq, full, exp_full if full else exp_sub, problems, pairs, what)
                    if with_density and (N <= 4 or not full):
                        _check_density(fit.density_matrix(full_hilbert_space=full), exp_full if full else exp_sub, N if full else m, problems, pairs, what)
    except NonLinear as e:
        problems.append("fitter performed a non-linear operation on the statistics: %s" % e)
    except (AssertionError, ValueError, KeyError, IndexError, TypeError, ZeroDivisionError, AttributeError) as e:
        problems.append("fitter raised %s: %s" % (type(e).__name__, str(e)[:100]))
    bad = prover.all_equal([(a, b) for a, b, _ in pairs]) if pairs else None
    if bad is not None:
        if bad == -1:
            problems.append("SOLVER-UNKNOWN")
        else:
            a, b, w = pairs[bad]
            problems.append("%s is %s, expected %s" % (w, _short(a), _short(b)))
    return problems, dict(pairs=len(pairs), circuits=len(circs))


def stabilizer_measurement(N, conn, mq, R, S, ph, prover, with_density=True, variant="plain"):
    """real stabilizer_measurement_circuit + StabilizerMeasurementFitter for the stabilizer (R,S,ph) on the list mq"""
    from qiskit import QuantumCircuit
    tm = loader.sym("tomography")
    st = loader.sym("stabilizer")
    for mname in ("tomography", "mub_circuits", "stabilizer_circuits", "stabilizer"):
        loader.reset_state(mname)
    n = len(R)
    problems, pairs = [], []
    from .. import symnp
    stab = st.Stabilizer((symnp.SymArray(np.array(R, dtype=np.int64), np.int8), symnp.SymArray(np.array(S, dtype=np.int64), np.int8),
                          symnp.SymArray(np.array(ph, dtype=np.int64), np.int8)))
    prep = make_prep(N, variant if mq is not None else "plain")
    try:
        circ = tm.stabilizer_measurement_circuit(prep, stab, conn, mq)
    except (AssertionError, ValueError, RuntimeError, TypeError) as e:
        return ["stabilizer_measurement_circuit raised %s: %s" % (type(e).__name__, str(e)[:80])], {}
    ncl0 = 2 if (variant == "cregs" and mq is not None) else 0
    if len(prep.data) != 0 or prep.num_clbits != ncl0 or circ is prep:
        problems.append("stabilizer_measurement_circuit modified (or returned) the caller's preparation circuit")
    counts = _with_cregs(exact_counts([g for g in ztab.gates_of(circ, allow_measure=True)], N), ncl0)
    mlist = list(range(N)) if mq is None else list(mq)
    # unsigned group elements, as labels on the n listed qubits
    group = {}
    for a in range(2 ** n):
        x = [0] * n
        z = [0] * n
        for j in range(n):
            if (a >> j) & 1:
                x = [x[q] ^ R[q][j] for q in range(n)]
                z = [z[q] ^ S[q][j] for q in range(n)]
        group[tomo.label_of_xz(x, z)] = True
    exp_sub = {l: embed(l, mlist, N) for l in group}
    exp_full = {embed(l, mlist, N): embed(l, mlist, N) for l in group}
    try:
        orders = ((True,),) if mq is None else ((False, True), (True, False))
        for order in orders:
            fit = tm.StabilizerMeasurementFitter(FakeResult([counts]), circ)
            for full in order:
                what = "stabilizer measurement, list %s, %s mode" % (mlist, "full-register" if full else "reduced")
                ev = fit.expectation_values(full_hilbert_space=full)
                exp = exp_full if (full or mq is None) else exp_sub
                _check_ev(ev, N, mq, full, exp, problems, pairs, what)
                if with_density and N <= 4:
                    _check_density(fit.density_matrix(full_hilbert_space=full), exp, N if (full or mq is None) else n, problems, pairs, what)
    except NonLinear as e:
        problems.append("fitter performed a non-linear operation on the statistics: %s" % e)
    except (AssertionError, ValueError, KeyError, IndexError, TypeError, ZeroDivisionError, AttributeError) as e:
        problems.append("fitter raised %s: %s" % (type(e).__name__, str(e)[:100]))
    bad = prover.all_equal([(a, b) for a, b, _ in pairs]) if pairs else None
    if bad is not None:
        if bad == -1:
            problems.append("SOLVER-UNKNOWN")
        else:
            a, b, w = pairs[bad]
            problems.append("%s is %s, expected %s" % (w, _short(a), _short(b)))
    return problems, dict(pairs=len(pairs), group=len(group))


def _short(lin):
    items = list(lin.t.items())[:4]
    return "{" + ", ".join("%s: %s" % (k if k != 1 else "1", v[0] if v[1] == 0 else v) for k, v in items) + (", ..." if len(lin.t) > 4 else "") + "}"


# ------------------------------------------------------------------------------------------------ replay helpers
def random_state(N, rnd):
    """random mixed state with complex coherences (native replay only)"""
    d = 2 ** N
    A = rnd.normal(size=(d, d)) + 1j * rnd.normal(size=(d, d))
    rho = A @ A.conj().T
    return rho / np.trace(rho)


def native_counts(circ, rho, N):
    """exact outcome probabilities of the unitary part of `circ` on state rho (dense), keyed little-endian"""
    from .. import dense
    gates = dense.gates_of(circ)
    d = 2 ** N
    U = np.zeros((d, d), dtype=complex)
    for b in range(d):
        e = np.zeros(d, dtype=complex)
        e[b] = 1
        U[:, b] = dense.run(N, gates, e)
    out = U @ rho @ U.conj().T
    return {format(b, "0%db" % N): float(out[b, b].real) for b in range(d)}


def native_expect(rho, label):
    from .. import dense
    return float(np.trace(rho @ dense.pauli_matrix(label)).real)
