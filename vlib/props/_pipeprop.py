"""common driver for the pipeline properties C01 / C02 / C03 / C04"""
import random
import numpy as np
from .. import harness, loader, core, pipeline, ztab, tables, coupling_spec, circmetrics, dense


def drive(ck, tier, seed, api, want, jobs, mode="fork", label=""):
    ck.validated += ztab.validate_against_qiskit(seed=seed, trials=100)
    args = [(j, api, want, mode) for j in jobs]
    cands = []
    per_class_costs = {}
    n = 0
    for arg, r in harness.pmap(pipeline.run_job, args, progress=200):
        job = arg[0]
        res = core.Result.from_json(r["res"])
        part = "%s %s %d-%s" % (label or api, job["family"], job["n"], job["conn"])
        ck.add(part, res, sample=0)
        ck.validated += r.get("tv", 0)
        for s in r["sigs"]:
            ck.sigs.add("%s:%s:%s" % (job["n"], job["conn"], s))
        if r["sample"] and n < 12 and (job["family"] == "F3" or job.get("cls", 0) > 0):
            n += 1
            ck.sample(part, dict(job={k: job[k] for k in job if k not in ("adj",)}, leaf=r["sample"][0], paths=res.paths))
        if job["family"] == "Fc" and r["costs"]:
            per_class_costs.setdefault((job["n"], job["conn"], job["cls"]), set()).update(r["costs"])
        for c in r["cands"]:
            key = "%s%s %s n=%d %s R=%s S=%s ph=%s" % (c["api"], " resign" if c.get("resign") else "", c["label"][:50], c["n"], c["conn"], c["R"], c["S"], c["phases"])
            cands.append((key, dict(kind="pipeline", want=sorted(want), **c),
                          "%s(%d-%s) on R=%s S=%s signs=%s: %s" % (c["api"], c["n"], c["conn"], c["R"], c["S"], c["phases"], c["label"])))
    seen = set()
    uniq = [c for c in cands if not (c[0] in seen or seen.add(c[0]))]
    ck.candidates(uniq[:30])
    return per_class_costs


def vacuity(ck, api, want):
    """reachability twin: a deliberately wrong obligation must come back violated through the same harness"""
    from ..core import Ctx, explore
    job = dict(family="F3", n=2, conn="all", signs="all", seed=0)

    def twin():
        pipeline.leaf(job, api, want)
        Ctx.cur.prove("twin", 0)
    tw = explore(twin, mode="reexec", max_paths=3)
    ck.vacuity_twin("pipeline harness (%s) reaches its leaf obligations" % api, bool(tw.violations))


# ------------------------------------------------------------------------------------------------ replay
def replay(case):
    """native library + dense simulation (independent of ztab)"""
    from htstabilizer.stabilizer import Stabilizer
    from htstabilizer.stabilizer_circuits import get_preparation_circuit, get_readout_circuit
    from htstabilizer.circuit_lookup import stabilizer_circuit_lookup
    n, conn = case["n"], case["conn"]
    R = np.array(case["R"], dtype=np.int8)
    S = np.array(case["S"], dtype=np.int8)
    ph = np.array(case["phases"], dtype=np.int8)
    want = set(case.get("want", []))
    api = case["api"]
    stab = Stabilizer((R.copy(), S.copy(), ph.copy()))
    labels = []
    for j in range(n):
        labels.append(("-" if ph[j] else "+") + "".join("IXZY"[int(R[q, j]) + 2 * int(S[q, j])] for q in range(n)))
    try:
        qc = get_preparation_circuit(stab, conn) if api == "prep" else get_readout_circuit(stab, conn)
    except Exception as e:
        return True, "valid stabilizer %s rejected: %r" % (labels, e)
    gates = dense.gates_of(qc)
    if any(len(q) > 2 for _, q in gates):
        return True, "gate on more than two qubits"
    if "C01" in want and api == "prep" and case.get("resign"):
        stab.phases[:] = 1 - stab.phases
        labels = [("+" if l[0] == "-" else "-") + l[1:] for l in labels]
        try:
            qc = get_preparation_circuit(stab, conn)
        except Exception as e:
            return True, "second call after in-place sign flip raised %r" % (e,)
        gates = dense.gates_of(qc)
    if "C01" in want and api == "prep":
        psi = dense.run(n, gates)
        for lab in labels:
            ex = dense.expectation(psi, n, lab)
            if abs(ex - 1) > 1e-9:
                return True, "<%s> = %+.3f on the state prepared for %s (%d-%s)" % (lab, ex, labels, n, conn)
    if "C03" in want and api == "readout":
        U = np.zeros((2 ** n, 2 ** n), dtype=complex)
        for b in range(2 ** n):
            e = np.zeros(2 ** n, dtype=complex)
            e[b] = 1
            U[:, b] = dense.run(n, gates, e)
        for a in range(1, 2 ** n):
            x = [0] * n
            z = [0] * n
            for j in range(n):
                if (a >> j) & 1:
                    x = [x[q] ^ int(R[q, j]) for q in range(n)]
                    z = [z[q] ^ int(S[q, j]) for q in range(n)]
            lab = "".join("IXZY"[x[q] + 2 * z[q]] for q in range(n))
            M = U @ dense.pauli_matrix(lab) @ U.conj().T
            if np.abs(M - np.diag(np.diag(M))).max() > 1e-9:
                return True, "group element %s of %s is not diagonalised by the readout circuit (%d-%s)" % (lab, labels, n, conn)
    if "C02" in want or "C04" in want:
        from .c06 import _lc_equiv_bruteforce
        from ..coupling_spec import NCLASSES
        cls = case.get("cls")
        if cls is None:
            cls = next(c for c in range(NCLASSES[n]) if _lc_equiv_bruteforce(R.tolist(), S.tolist(), tables.rep_graph(n, c)))
        info = stabilizer_circuit_lookup(n, conn, cls)
        tg = dense.gates_of(info.parse_circuit())
        if api == "readout":
            tg = list(reversed(tg))
        if "C02" in want:
            es = coupling_spec.edge_set(n, conn)
            off = [g for g in gates if len(g[1]) == 2 and (min(g[1]), max(g[1])) not in es]
            if off:
                return True, "two-qubit gate %s off the coupling graph of %d-%s" % (off[0], n, conn)
            if circmetrics.skeleton_canon(gates, n) != circmetrics.skeleton_canon(tg, n):
                return True, "two-qubit skeleton differs from the table entry of class %d" % cls
        if "C04" in want:
            c, d = circmetrics.two_qubit_count(gates), circmetrics.two_qubit_depth(gates, n)
            if (c, d) != (info.cost, info.depth):
                return True, "two-qubit count/depth %d/%d, metadata of class %d says %d/%d" % (c, d, cls, info.cost, info.depth)
    return False, "native library behaves correctly on this input"
