"""C19 - graph and class codecs, local complementation (real code, symbolic graph id / adjacency)."""
import itertools
import numpy as np
from .. import harness, loader, core, symnp, lcq, tables
from ..core import Ctx, explore, var, land, lxor, lor, lor_all, land_all, leq, SV, SB, mk, evaluate
from ..coupling_spec import NCLASSES

PID = "C19"


def _bitpos(n, i, j):
    return i * n - i * (i + 1) // 2 + (j - i - 1)


def _lit(e):
    if isinstance(e, SV):
        return e.bits[0] if len(e.bits) == 1 else None
    if isinstance(e, SB):
        return e.l
    e = int(e)
    return e if e in (0, 1) else None


def _sym_adj(n, prefix="g"):
    a = np.empty((n, n), dtype=object)
    lits = [[0] * n for _ in range(n)]
    for i in range(n):
        a[i, i] = 0
        for j in range(i + 1, n):
            l = var("%s%d_%d" % (prefix, i, j))
            lits[i][j] = lits[j][i] = l
            a[i, j] = a[j, i] = mk((l,))
    return symnp._wrap(a, np.int8), lits


def _decompress_job(job):
    n, preset = job
    gr = loader.sym("graph")
    E = n * (n - 1) // 2
    cands = []

    def fn():
        ctx = Ctx.cur
        gid = core.symint("id", E)
        for k, val in preset:
            ctx.assume(var("id.%d" % k) if val else var("id.%d" % k) ^ 1)
        g = gr.Graph.decompress(n, gid)
        A = np.asarray(g.adjacency_matrix)
        cons = []
        ok = A.shape == (n, n)
        for i in range(n):
            for j in range(n):
                l = _lit(A[i, j]) if ok else None
                if l is None:
                    ok = False
                    break
                if i == j:
                    cons.append(l ^ 1)
                else:
                    a, b = min(i, j), max(i, j)
                    cons.append(leq(l, var("id.%d" % _bitpos(n, a, b))))
        ctx.prove("decompress: edge (i,j) present iff documented bit of id; symmetric; zero diagonal", land_all(cons) if ok else 0)
        back = g.compress()
        eq = (back == gid)
        ctx.prove("compress(decompress(id)) == id", core.litof(eq) if not isinstance(eq, bool) else int(eq))
        return {"edges": int(sum(1 for i in range(n) for j in range(i + 1, n) if _lit(A[i, j]) == 1)) if ok else -1}
    res = explore(fn)
    for v in res.violations:
        gidv = sum((1 << k) for k in range(E) if v["model"].get("id.%d" % k))
        cands.append(dict(kind="codec", n=n, gid=gidv, label=v["label"]))
    res.violations = []
    res.leaves = res.leaves[:2]
    return dict(res=res.to_json(), cands=cands)


def _compress_job(job):
    n, preset = job
    gr = loader.sym("graph")
    cands = []
    pairs = [(i, j) for i in range(n) for j in range(i + 1, n)]

    def fn():
        ctx = Ctx.cur
        adj, lits = _sym_adj(n)
        for k, val in preset:
            i, j = pairs[k]
            ctx.assume(lits[i][j] if val else lits[i][j] ^ 1)
        g = gr.Graph(adj)
        code = g.compress()
        want = 0
        for (i, j) in pairs:
            want = want | (mk((lits[i][j],)) << _bitpos(n, i, j))
        eq = (code == want)
        ctx.prove("compress: bit position of edge (i,j) is the documented one", core.litof(eq) if not isinstance(eq, bool) else int(eq))
        g2 = gr.Graph.decompress(n, code)
        A2 = np.asarray(g2.adjacency_matrix)
        cons = [leq(_lit(A2[i, j]), lits[i][j]) for i in range(n) for j in range(n) if i != j] + [_lit(A2[i, i]) ^ 1 for i in range(n)]
        ctx.prove("decompress(compress(G)) == G", land_all(cons))
        return {"code": int(code) if not isinstance(code, SV) else "sym"}
    res = explore(fn)
    for v in res.violations:
        adjm = [[int(v["model"].get("g%d_%d" % (min(i, j), max(i, j)), False)) if i != j else 0 for j in range(n)] for i in range(n)]
        cands.append(dict(kind="codec", n=n, gid=_gid(adjm), label=v["label"]))
    res.violations = []
    res.leaves = res.leaves[:2]
    return dict(res=res.to_json(), cands=cands)


def _gid(adj):
    n = len(adj)
    return sum(1 << _bitpos(n, i, j) for i in range(n) for j in range(i + 1, n) if adj[i][j])


def _lc_job(job):
    n, v = job
    gr = loader.sym("graph")
    cands = []

    def fn():
        ctx = Ctx.cur
        adj, lits = _sym_adj(n)
        g = gr.Graph(adj)
        before = [[lits[i][j] for j in range(n)] for i in range(n)]
        try:
            h = g.local_complemented(v)
        except (AssertionError, TypeError, ValueError, AttributeError) as e:
            ctx.prove("local_complemented must work on every graph (raised %s)" % type(e).__name__, 0)
            return {}
        A = np.asarray(g.adjacency_matrix)
        ctx.prove("local_complemented leaves the receiver unchanged",
                  land_all([leq(_lit(A[i, j]), before[i][j]) for i in range(n) for j in range(n)]))
        H = np.asarray(h.adjacency_matrix)
        Hl = [[_lit(H[i, j]) for j in range(n)] for i in range(n)]
        if any(x is None for row in Hl for x in row):
            ctx.prove("local complementation keeps 0/1 entries", 0)
            return {}
        want = [[lxor(before[i][j], land(before[i][v], before[j][v])) if i != j else 0 for j in range(n)] for i in range(n)]
        ctx.prove("local complementation complements exactly the edges among the neighbours; simple graph",
                  land_all([leq(Hl[i][j], want[i][j]) for i in range(n) for j in range(n)]))
        h2 = h.local_complemented(v)
        H2 = np.asarray(h2.adjacency_matrix)
        ctx.prove("local complementation is an involution",
                  land_all([leq(_lit(H2[i, j]), before[i][j]) for i in range(n) for j in range(n)]))
        # in-place variant agrees
        g3 = gr.Graph(symnp._wrap(np.asarray(adj).copy(), np.int8))
        g3.local_complementation(v)
        G3 = np.asarray(g3.adjacency_matrix)
        ctx.prove("in-place local_complementation agrees with local_complemented",
                  land_all([leq(_lit(G3[i, j]), Hl[i][j]) for i in range(n) for j in range(n)]))
        # same LC class: explicit layer sqrt(-iX) on v, sqrt(iZ) on N(v) maps |G> into the group of the library's LC_v(G)
        layer = []
        for q in range(n):
            if q == v:
                layer.append((1, 1, 0, 1))
            else:
                layer.append((1, 0, before[q][v], 1))
        X, Z = lcq.graph_tab(before)
        X2, Z2 = lcq.apply_layer(layer, X, Z)
        ctx.prove("|G> and |LC_v(G)> are related by single-qubit Cliffords (explicit layer, all graphs at once)",
                  land_all(lcq.in_graph_group(Hl, X2, Z2)))
        return {"v": v}
    res = explore(fn)
    for vv in res.violations:
        adjm = [[int(vv["model"].get("g%d_%d" % (min(i, j), max(i, j)), False)) if i != j else 0 for j in range(n)] for i in range(n)]
        cands.append(dict(kind="lc", n=n, v=v, gid=_gid(adjm), label=vv["label"]))
    res.violations = []
    res.leaves = res.leaves[:1]
    return dict(res=res.to_json(), cands=cands)


LINIDX = [("0", 1, None), ("12", 3, (1, 2)), ("13", 4, (1, 3)), ("14", 5, (1, 4)), ("15", 6, (1, 5)), ("22", 3, (2, 2)), ("112", 6, (1, 1, 2)),
          ("23", 10, (2, 3)), ("122", 15, (1, 2, 2)), ("123", 60, (1, 2, 3)), ("33", 10, (3, 3)), ("24", 15, (2, 4)), ("222", 15, (2, 2, 2)),
          ("1122", 45, (1, 1, 2, 2)), ("1113", 20, (1, 1, 1, 3)), ("1122s", 90, (1, 1, 2, 2))]


def _linear_index_checks(ck):
    li = loader.native("linear_index")
    for name, count, shape in LINIDX:
        to, frm = getattr(li, "to_" + name), getattr(li, "from_" + name)
        seen = {}
        for i in range(count):
            ck.obligations += 1
            try:
                rep = to(i)
                back = frm(rep)
                groups = [tuple(t.data) for sub in rep.groups for t in sub]
                flat = sorted(x for gset in groups for x in gset)
                ordered = name == "1122s"
                key = tuple(groups) if ordered else tuple(sorted(groups))
                okshape = shape is None or (sorted(len(g) for g in groups) == sorted(shape) and flat == list(range(sum(shape))))
                ok = back == i and okshape and key not in seen
                seen[key] = i
                # the same grouping LISTED differently (groups of equal size in another order, members reversed)
                if ok and not ordered and groups:
                    import itertools as _it
                    for perm in list(_it.permutations(range(len(groups))))[:24]:
                        if sorted(len(groups[p]) for p in perm) != [len(g) for g in sorted(groups, key=len)] and False:
                            continue
                        listing = [list(reversed(groups[p])) for p in perm]
                        try:
                            b2 = frm(li.Repr([list(g) for g in listing]))
                        except Exception as e:
                            b2 = repr(e)
                        if b2 != i:
                            ok = False
                            back = "listing %s encodes to %s" % (listing, b2)
                            break
            except Exception as e:
                ok = False
                back = repr(e)
            if ok:
                ck.discharged += 1
            else:
                ck.candidate("linear_index %s i=%d" % (name, i), dict(kind="linidx", name=name, i=i, count=count),
                             "linear_index.to_%s/from_%s: index %d does not round-trip / grouping malformed or repeated (back=%s)" % (name, name, i, back))
        ck.count("linear_index:" + name, paths=count, sig=["li%s:%d" % (name, i) for i in range(count)])
    for n in (4, 5, 6):
        for idx in range(n * (n - 1) // 2):
            ck.obligations += 1
            i, j = li.linear_index_to_n_choose2_to(n, idx)
            pairs = [(a, b) for a in range(n) for b in range(a + 1, n)]
            if (int(i), int(j)) == pairs[idx] and li.linear_index_from_n_choose_2(n, int(i), int(j)) == idx:
                ck.discharged += 1
            else:
                ck.candidate("n_choose_2 n=%d idx=%d" % (n, idx), dict(kind="nc2", n=n, idx=idx), "linear_index_to_n_choose2_to(%d,%d) = %s" % (n, idx, (i, j)))


def run(tier, seed):
    ck = harness.Check(PID, tier, seed)
    ck.encode("graph.Graph.decompress", "graph.Graph.compress", "graph.Graph.has_edge", "graph.Graph.add_edge", "graph.Graph.local_complementation",
              "graph.Graph.local_complemented", "graph.Graph.copy", "lc_classes.LCClassBase.id/_from_id", "linear_index.to_*/from_*")
    nmax = 5 if tier == "quick" else 6
    ck.bounds += ["decompress/compress: graph id symbolic (n(n-1)/2 bits), every id of n=2..%d (paths = ids: the codec is injective, so this part is solver-driven enumeration)" % nmax,
                  "local complementation: adjacency fully symbolic (all graphs at once, no forks), every vertex, n=2..6; LC-class preservation by an explicit-layer identity over 15 symbolic bits",
                  "class ids and linear_index groupings: complete finite domains (concrete loops)"]
    ck.outside += ["quick tier: n=6 ids for the codec round trips (thorough covers all 32768)"]
    cands = []
    jobs = []
    for n in range(2, nmax + 1):
        E = n * (n - 1) // 2
        p = 0 if E <= 6 else (4 if E <= 10 else 8)
        for bits in itertools.product([0, 1], repeat=p):
            jobs.append(("d", n, tuple(zip(range(p), bits))))
            jobs.append(("c", n, tuple(zip(range(p), bits))))
    for n in range(2, 7):
        for v in range(n):
            jobs.append(("l", n, v))
    jobs.sort(key=lambda j: (-j[1], j[0]))

    def dispatch(job):
        return {"d": _decompress_job, "c": _compress_job}[job[0]]((job[1], job[2])) if job[0] != "l" else _lc_job((job[1], job[2]))
    for job, r in harness.pmap(_dispatch, jobs):
        res = core.Result.from_json(r["res"])
        name = {"d": "decompress", "c": "compress", "l": "local-complementation"}[job[0]]
        ck.add("%s n=%d" % (name, job[1]), res, sample=1 if job[0] == "l" and job[2] == 0 else 0)
        for c in r["cands"]:
            cands.append(("%s n=%d gid=%d %s" % (c["kind"], c["n"], c["gid"], c.get("v", "")), c, "%s (n=%d, graph id %d%s)" % (c["label"], c["n"], c["gid"], ", vertex %s" % c["v"] if "v" in c else "")))
    seen = set()
    uniq = [c for c in cands if not (c[0] in seen or seen.add(c[0]))]
    ck.candidates(uniq[:30])
    # class ids
    for n in range(2, 7):
        cls = tables.class_of(n)
        for cid in range(NCLASSES[n]):
            ck.obligations += 1
            try:
                o = cls(cid)
                ok = o.id() == cid and sorted(o.data.flatten()) in ([], list(range(n)))
            except Exception:
                ok = False
            if ok:
                ck.discharged += 1
            else:
                ck.candidate("class-id n=%d id=%d" % (n, cid), dict(kind="classid", n=n, cid=cid), "LCClass%d(%d) does not decode to a grouping that encodes back to %d" % (n, cid, cid))
        ck.count("class-ids n=%d" % n, paths=NCLASSES[n], sig=["cid%d:%d" % (n, c) for c in range(NCLASSES[n])])
    _linear_index_checks(ck)
    # native side condition (machine semantics / object identity): local_complemented must leave the receiver alone
    grn = loader.native("graph")
    nat = 0
    for n in range(2, 5):
        for gid in range(2 ** (n * (n - 1) // 2)):
            for v in range(n):
                adj = tables.adj_of_id(n, gid)
                g = grn.Graph(np.array(adj, dtype=np.int8))
                h = g.local_complemented(v)
                want = [[adj[i][j] ^ (adj[i][v] & adj[j][v]) if i != j else 0 for j in range(n)] for i in range(n)]
                ck.obligations += 1
                nat += 1
                if g.adjacency_matrix.tolist() == adj and h.adjacency_matrix.tolist() == want and g.copy().adjacency_matrix is not g.adjacency_matrix:
                    ck.discharged += 1
                else:
                    ck.candidate("native lc n=%d gid=%d v=%d" % (n, gid, v), dict(kind="lc", n=n, v=v, gid=gid, label="native"), "native local_complemented(%d) on graph %d (n=%d) modifies the receiver or returns a wrong graph" % (v, gid, n))
    ck.validated += nat
    # vacuity: the LC identity fails for a wrong layer (identity layer) -> query must be sat
    adj, lits = _sym_adj(3)
    q = lcq.Q()
    X, Z = lcq.graph_tab(lits)
    want = [[lxor(lits[i][j], land(lits[i][0], lits[j][0])) if i != j else 0 for j in range(3)] for i in range(3)]
    r, _ = q.check([lor_all([c ^ 1 for c in lcq.in_graph_group(want, X, Z)])])
    ck.vacuity_twin("LC-class identity is falsifiable (identity layer does not relate G and LC_0(G))", r == "sat")
    return ck.finish()


def _dispatch(job):
    if job[0] == "l":
        return _lc_job((job[1], job[2]))
    return {"d": _decompress_job, "c": _compress_job}[job[0]]((job[1], job[2]))


# ------------------------------------------------------------------------------------------------ replay
def replay(case):
    from htstabilizer.graph import Graph
    from htstabilizer import linear_index as li, lc_classes
    kind = case["kind"]
    if kind == "codec":
        n, gid = case["n"], case["gid"]
        want = tables.adj_of_id(n, gid)
        g = Graph.decompress(n, gid)
        if g.adjacency_matrix.tolist() != want:
            return True, "decompress(%d,%d) = %s, documented layout gives %s" % (n, gid, g.adjacency_matrix.tolist(), want)
        c = Graph(np.array(want, dtype=np.int8)).compress()
        return c != gid, "compress gives %d for graph %d" % (c, gid)
    if kind == "lc":
        n, gid, v = case["n"], case["gid"], case["v"]
        adj = tables.adj_of_id(n, gid)
        want = [[adj[i][j] ^ (adj[i][v] & adj[j][v]) if i != j else 0 for j in range(n)] for i in range(n)]
        g = Graph(np.array(adj, dtype=np.int8))
        h = g.local_complemented(v)
        if g.adjacency_matrix.tolist() != adj:
            return True, "receiver modified"
        if h.adjacency_matrix.tolist() != want:
            return True, "local complement of graph %d at %d is %s, expected %s" % (gid, v, h.adjacency_matrix.tolist(), want)
        if h.local_complemented(v).adjacency_matrix.tolist() != adj:
            return True, "not an involution"
        g.local_complementation(v)
        return g.adjacency_matrix.tolist() != want, "in-place variant"
    if kind == "linidx":
        to, frm = getattr(li, "to_" + case["name"]), getattr(li, "from_" + case["name"])
        reps = []
        for i in range(case["count"]):
            try:
                r = to(i)
                if frm(r) != i:
                    return True, "from(to(%d)) = %d" % (i, frm(r))
                groups = [tuple(t.data) for sub in r.groups for t in sub]
                key = tuple(groups) if case["name"] == "1122s" else tuple(sorted(groups))
                if key in reps:
                    return True, "grouping of index %d repeats" % i
                reps.append(key)
                import itertools as _it
                if groups and case["name"] != "1122s":
                    for perm in list(_it.permutations(range(len(groups))))[:24]:
                        listing = [list(reversed(groups[p])) for p in perm]
                        b2 = frm(li.Repr([list(g) for g in listing]))
                        if b2 != i:
                            return True, "grouping %s of index %d, listed as %s, encodes to %s" % (groups, i, listing, b2)
            except Exception as e:
                return True, "raised %r at %d" % (e, i)
        return False, "round trips fine"
    if kind == "nc2":
        n, idx = case["n"], case["idx"]
        pairs = [(a, b) for a in range(n) for b in range(a + 1, n)]
        i, j = li.linear_index_to_n_choose2_to(n, idx)
        return (int(i), int(j)) != pairs[idx], "got %s want %s" % ((i, j), pairs[idx])
    if kind == "classid":
        cls = lc_classes.__dict__["LCClass%d" % case["n"]]
        try:
            return cls(case["cid"]).id() != case["cid"], "roundtrip"
        except Exception as e:
            return True, "raised %r" % (e,)
    return False, "unknown kind"
