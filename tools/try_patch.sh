#!/bin/bash
# usage: tools/try_patch.sh <patch-file|-R:commit> <ID> [<ID>...]
# Applies the patch in a scratch worktree of /repo HEAD (under /tmp), points the checks at it through
# VERIF_REPO_SRC, runs the quick (or $TIER) checks and removes the worktree.  /repo itself is not touched.
P="$1"; shift
cd /verif
W=$(mktemp -d /tmp/try_wt.XXXXXX); rmdir $W
git -C /repo worktree add -q --detach $W HEAD || exit 9
if [[ "$P" == -R:* ]]; then git -C /repo show "${P#-R:}" | git -C $W apply -R || { git -C /repo worktree remove --force $W; exit 9; }
else git -C $W apply "$P" || { git -C /repo worktree remove --force $W; exit 9; }; fi
E=$(mktemp -d /tmp/try_ev.XXXXXX)
for id in "$@"; do
  cp evidence/$id.json $E/$id.json.bak 2>/dev/null
  out=$(VERIF_REPO_SRC=$W/src ./check $id --tier ${TIER:-quick} 2>&1); code=$?
  echo "== $id exit=$code"
  echo "$out" | grep -E "^(VIOLATION|HARNESS-ERROR)|  ->" | cut -c1-${COLS_MAX:-300} | head -${LINES_MAX:-6}
  echo "$out" | tail -1
  cp $E/$id.json.bak evidence/$id.json 2>/dev/null
done
rm -rf $E
git -C /repo worktree remove --force $W
[ -n "$KEEP_REPLAYS" ] || rm -f /verif/replays/*.json
