#!/bin/bash
# usage: tools/confirm_mutant.sh <PROP> <k>   (uses /tmp/mut/out/<PROP>/patch<k>.diff and demo<k>.py)
# Confirms in a scratch worktree: patch applies, demo fails with it and passes without it, stable test-suite passes.
P=$1; K=$2
SRC=/tmp/mut/out/$P
W=$(mktemp -d /tmp/confirm_wt.XXXXXX); rmdir $W
git -C /repo worktree add -q --detach $W HEAD || exit 9
R=$SRC/confirm$K.json
git -C $W apply $SRC/patch$K.diff 2>/dev/null || { echo "{\"applies\": false}" > $R; git -C /repo worktree remove --force $W; exit 1; }
( cd $W && PYTHONPATH=$W/src timeout 1200 /venv/bin/python $SRC/demo$K.py > $SRC/confirm$K.demo_mut.log 2>&1 ); DM=$?
( cd /tmp/mut/pristine && PYTHONPATH=/tmp/mut/pristine/src timeout 1200 /venv/bin/python $SRC/demo$K.py > $SRC/confirm$K.demo_clean.log 2>&1 ); DC=$?
( cd $W && timeout 3000 /venv/bin/python -m pytest -q -p no:cacheprovider --timeout=900 --continue-on-collection-errors --junitxml=$SRC/confirm$K.junit.xml > $SRC/confirm$K.pytest.log 2>&1 )
/venv/bin/python - $SRC/confirm$K.junit.xml $DM $DC > $R <<'PY'
import json, sys, xml.etree.ElementTree as ET
b=json.load(open('/root/.vp/BASELINE.json'))
res={}
try:
    for tc in ET.parse(sys.argv[1]).iter('testcase'):
        res[tc.get('classname')+"::"+tc.get('name')] = not any(c.tag in('failure','error','skipped') for c in tc)
except Exception as e:
    res={}
miss=[s for s in b['stable_pass'] if not res.get(s)]
print(json.dumps({"applies": True, "demo_exit_with_change": int(sys.argv[2]), "demo_exit_without_change": int(sys.argv[3]), "stable_tests_passing": len(b['stable_pass'])-len(miss), "stable_tests_total": len(b['stable_pass']), "stable_tests_broken": miss[:10]}))
PY
git -C /repo worktree remove --force $W
cat $R
