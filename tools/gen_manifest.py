#!/usr/bin/env python3
"""Regenerates MANIFEST.json from the table below (keeps it schema-valid at all times)."""
import json, os, sys
HERE = os.path.dirname(os.path.dirname(os.path.abspath(__file__)))
ALL = ["C%02d" % i for i in range(1, 20)]

CHECKS = {
 "C05": dict(engine="lcq", cat="model_checking",
   text="inductive optimality: a one-step Lipschitz condition on the table-cost potential is decided by one SMT exists-query per source class (all coupled pairs x all local Cliffords x all target classes); unsat for every class bounds competitor circuits of ANY length; sat models become witness circuits replayed on the real library; iterated to the fixpoint",
   note="trusts z3, ztab (validated vs qiskit on each run), the pen-and-paper induction and 'every stabilizer state is LC-equivalent to a graph state'; representatives' coverage of all states is C06's verdict",
   tech="SMT (z3) exists-queries over symbolic Clifford layers / edges / target graphs; fixpoint; native replay of witnesses"),
 "C06": dict(engine="symrun+lcq", cat="model_checking",
   text="symbolic execution of the real classifier with all 4n local-Clifford bits symbolic per class graph (one path covers 6^n layers; every concretisation is a solver-proved uniqueness), full symbolic valid tableaux for n<=3, exists-layer certificates for every graph, unsat separation of representatives",
   note="trusts z3, the NumPy proxy (object arrays), pen-and-paper lemma composition for generator bases at n>=4",
   tech="symbolic execution of repo source with z3 path feasibility/uniqueness queries; SMT LC-equivalence certificates"),
 "C17": dict(engine="ztab+lcq", cat="model_checking",
   text="per table entry one z3 query over a symbolic coefficient vector (all 2^n group elements pulled back through the real parser's gate list) and one exists-layer LC certificate; the outer loop is the finite shipped list",
   note="trusts z3, ztab gate rules (validated vs qiskit on each run), hand-transcribed coupling table",
   tech="SMT (z3) over symbolic Pauli conjugated through concrete gate lists; exists-layer LC certificates"),
}
PIPE_NOTE = "trusts z3, ztab (validated vs qiskit each run), the NumPy proxy, qiskit on concrete arguments; n>=4 coverage is per structured family (class graph x window x seeded layer/basis/signs) and lifted by the lemma chain of DESIGN.md §5"
PIPE_TECH = "symbolic execution of the repo's pipeline source (instrumented copy regenerated per run), exact truth-table / z3 branch decisions, per-path z3 obligations via an independent tableau oracle, native replay"
CHECKS.update({
 "C01": dict(engine="symrun+ztab", cat="model_checking",
   text="the real get_preparation_circuit is executed on symbolic tableaux (n<=3: every valid tableau/sign/basis inside the explored partitions; n>=4: class-graph families with symbolic local-Clifford window, signs, seeded bases, every class of every configuration once); per path z3 proves that every signed generator is pulled back to +Z by the returned gate list; a history step re-signs the same object in place",
   note=PIPE_NOTE, tech=PIPE_TECH),
 "C02": dict(engine="symrun+ztab", cat="model_checking",
   text="coupling graphs vs a hand-transcribed edge table, every table/MUB line, skeleton equality (DAG form) on every explored pipeline leaf for prep and readout, and all ordered measured-qubit lists (symbolic list, realised) for both measurement circuit builders",
   note=PIPE_NOTE + "; parts 1,2,4 are finite checks in which the solver only drives enumeration", tech=PIPE_TECH),
 "C03": dict(engine="symrun+ztab", cat="model_checking",
   text="the real get_readout_circuit on symbolic tableaux with the sign vector poisoned; per path one z3 query over a symbolic coefficient vector proves all 2^n group elements of all inputs sharing the path are mapped to Z-type operators",
   note=PIPE_NOTE, tech=PIPE_TECH),
 "C04": dict(engine="symrun+ztab", cat="model_checking",
   text="on every explored leaf of prep/readout/compress the two-qubit count (SWAP=3) and ASAP depth are compared with the metadata of the ORACLE class (construction class / brute-force LC class); all table lines' metadata recomputed",
   note=PIPE_NOTE, tech=PIPE_TECH),
 "C07": dict(engine="symrun+ztab", cat="model_checking",
   text="real compress_preparation_circuit on all short gate programs (symbolic gate choices realised by the solver) and on structured long programs for every class of every configuration; obligations: same signed stabilizer group (ztab push/pull), connectivity, class cost/depth, input untouched; history step with a re-signed variant",
   note=PIPE_NOTE + "; unbounded program length only through the lemma C07-b", tech=PIPE_TECH),
 "C18": dict(engine="symrun", cat="model_checking",
   text="real rref/rank/rref_and_basis_change/null_space/mat_mul/add/trf_* executed on fully symbolic m x n matrices (all 2^(mn) matrices per shape), every path's obligations (RREF shape, kernel equality, M*A=R, M*M_inv=I, kernel basis, typing, input untouched) proved by z3; two-call sequences for hidden state",
   note="trusts z3 and the NumPy proxy; fully symbolic shapes beyond the bound are outside the claim; library-size shapes are covered by structured matrices with 4 symbolic entries plus CONCRETE native side conditions (big-integer oracle, dtype sweep) because the mathematical-integer model cannot see machine-word effects", tech="symbolic execution of repo source with z3 deciding each path and obligation; native agreement on a model of each path"),
 "C19": dict(engine="symrun+lcq", cat="model_checking",
   text="real Graph codec on a symbolic id / adjacency (paths = ids), local complementation on a fully symbolic adjacency (all graphs at once) incl. an explicit-layer LC-class identity; class-id and grouping codecs on their complete finite domains",
   note="trusts z3 and the NumPy proxy; codec part is solver-driven enumeration", tech="symbolic execution of repo source + SMT identity over 15 adjacency bits"),
})
CHECKS.update({
 "C08": dict(engine="symrun+ztab", cat="model_checking",
   text="Stabilizer.validate() executed on unconstrained symbolic matrices with symbolic signs (result <=> independent validity spec, z3), prep/readout executed end to end on unconstrained tableaux (every outcome is an exception or a circuit that z3 proves right for the given operators), plus the finite entry-point x (n, name) gate table",
   note="trusts z3, ztab, the NumPy proxy; n>=4 unconstrained end-to-end inputs outside; the gate table is a finite concrete check", tech=PIPE_TECH),
 "C09": dict(engine="ztab", cat="model_checking",
   text="per configuration one z3 query over a symbolic Pauli (all 4^n-1 operators lie in exactly one basis group) and per basis one query over a symbolic coefficient vector (circuit i diagonalises the whole group i); header numbers and readout-cost comparison recomputed; caller-side mutation history step",
   note="trusts z3, ztab (validated vs qiskit), the independent string parser", tech="SMT (z3) over symbolic Paulis / coefficient vectors against the real getters' output"),
 "C10": dict(engine="symrun+ztab", cat="model_checking",
   text="the state is symbolic (all 4^n Pauli coefficients free reals); exact outcome distributions are rational linear forms derived from the returned circuits with ztab; the REAL fitter code runs on them and z3 proves (LRA validity) that every reported expectation value and density-matrix entry equals the expected form; history step: a tomography with another connectivity of the same register size is evaluated first in the same interpreter",
   note="floating point abstracted to exact rationals; trusts z3, ztab, qiskit's Pauli.evolve on concrete arguments", tech="symbolic execution of the fitters on exact linear forms + z3 linear-real-arithmetic validity"),
 "C11": dict(engine="symrun+ztab", cat="model_checking",
   text="as C10 with an N-qubit symbolic state and the measured list a symbolic ordered m-subset (realised): both fitters, both modes, both call orders on one fitter object",
   note="N<=5; floating point abstracted; trusts z3, ztab", tech="symbolic execution of the fitters on exact linear forms + z3 LRA validity; solver-realised qubit lists"),
 "C12": dict(engine="symrun+ztab", cat="model_checking",
   text="as C10 for stabilizer_measurement_circuit + StabilizerMeasurementFitter: symbolic state, stabilizers from the F3/Fc families; exactly the 2^n unsigned group elements as keys, each value == r_P (LRA validity)",
   note="floating point abstracted; trusts z3, ztab", tech="symbolic execution of the fitter on exact linear forms + z3 LRA validity"),
 "C13": dict(engine="symrun+ztab", cat="other",
   text="havoc-based inductive step on the instrumented library: op1, caller-side mutation of everything reachable (argument arrays overwritten with fresh symbolic bits), op2 with a fresh or the SAME argument object; z3 proves for all inputs of each symbolic family that op2 meets its specification, equals the result of a freshly reset library, and that arguments are unmodified. The aliasing part is structural, the solver quantifies over inputs; cross-process equality is a concrete side condition",
   note="assumes the library's cross-call state lives in module-level containers or in objects handed to the caller; induction over history length is pen-and-paper", tech="symbolic execution of call sequences with havoc; z3 obligations per path"),
 "C14": dict(engine="symrun+ztab", cat="model_checking",
   text="every constructor branch on symbolic input: strings (characters realised by the solver), matrices and graphs with all entries symbolic, circuit branch via a slicing lemma over an arbitrary symbolic tableau plus all short gate programs / all table circuits through the real constructor; to_list on symbolic tableaux incl. both call orders; per gate program two look-alike circuits with composite instructions (pauli labels, appended Clifford operators) converted consecutively without reset",
   note="strings are solver-driven enumeration; qiskit's tableau trusted up to the bounded validation", tech="symbolic execution of repo source; z3 obligations; environment stub for qiskit's tableau"),
 "C15": dict(engine="symrun", cat="model_checking",
   text="is_equivalent_mod_phase / expand / is_qubit_entangled executed on symbolic valid tableaux; z3 proves agreement with definitions expanded over all coefficient vectors (n<=3 complete for equivalence, partitions of n=4; expand n<=6; entanglement n<=4/5)",
   note="GF(2) dimension arguments at n>=4 need partitioning (stated); trusts z3, NumPy proxy; n=5,6 only through a concrete native near-miss sweep (side condition)", tech="symbolic execution + SMT with partitioned queries"),
 "C16": dict(engine="symrun+lcq", cat="model_checking",
   text="real find_local_clifford_layer on unconstrained symbolic operator sets (n<=3) and class-graph / perturbed-random families (n=4..6): per 'layer' path z3 proves the defining equation and block validity, per 'None' path an exists-layer query over all 6^n layers is unsat; gate emission on a symbolic 2x2 block",
   note="trusts z3, NumPy proxy (hybrid native/object matmul), ztab; the graph-vs-itself family also runs the native search on a model of every path (machine-integer semantics)", tech="symbolic execution + exists-layer SMT queries per path; native agreement"),
})
NA_REASON = {}

def main():
    checks = []
    for pid in ALL:
        if pid in CHECKS:
            c = CHECKS[pid]
            checks.append({
                "property_id": pid,
                "quick_cmd": "./check %s --tier quick" % pid,
                "thorough_cmd": "./check %s --tier thorough" % pid,
                "evidence_file": "/verif/evidence/%s.json" % pid,
                "replay_cmd_template": "./check %s --replay {path}" % pid,
                "engine": c["engine"],
                "level_claimed": {"category": c["cat"], "text": c["text"], "design_ref": "DESIGN.md §4 %s" % pid},
                "level_note": c["note"],
                "technique": c["tech"],
            })
    na = [{"property_id": p, "reason": NA_REASON.get(p, "check not built yet in this round (planned, see DESIGN.md §10); nothing is claimed for it")}
          for p in ALL if p not in CHECKS]
    m = {
        "version": 1,
        "setup_cmd": "./setup.sh",
        "hooks": {
            "guard": "MC_ZEN_HTSTABILIZER_VERIF",
            "enable": "no source hooks are needed: every check loads /repo/src/htstabilizer/*.py from the working tree into a private instrumented package at run time (the guard variable is exported by ./check but read by nothing in /repo)",
            "baseline_off_cmd": "cd /repo && /venv/bin/python -m pytest -ra -q -p no:cacheprovider --timeout=900 --continue-on-collection-errors",
            "source_commits": [],
            "add_only": True,
        },
        "engines": [
            {"name": "symrun", "path": "vlib/core.py vlib/symnp.py vlib/loader.py", "serves_properties": [p for p in ALL if p in CHECKS and "symrun" in CHECKS[p]["engine"]],
             "kind_free_text": "symbolic execution of the repository's own Python source: hash-consed Boolean DAG, symbolic ints, NumPy proxy on object arrays, path exploration by re-execution or os.fork, z3 decides every branch and obligation"},
            {"name": "ztab", "path": "vlib/ztab.py", "serves_properties": [p for p in ALL if p in CHECKS and "ztab" in CHECKS[p]["engine"]],
             "kind_free_text": "independent signed-tableau oracle (symbolic Pauli through concrete gate list), validated against qiskit Clifford on every run"},
            {"name": "lcq", "path": "vlib/lcq.py", "serves_properties": [p for p in ALL if p in CHECKS and "lcq" in CHECKS[p]["engine"]],
             "kind_free_text": "direct z3 queries about local-Clifford equivalence and one-CZ-step reachability"},
        ],
        "checks": checks,
        "not_applicable": na,
        "notes": "exit codes: 0 held, 1 reproduced unlisted violation (VIOLATION line), 3 harness error / inconclusive. known_findings.jsonl lists recorded genuine defects; `fixed:` lines there record repaired ones.",
    }
    with open(os.path.join(HERE, "MANIFEST.json"), "w") as f:
        json.dump(m, f, indent=1)
    try:
        import jsonschema
        jsonschema.validate(m, json.load(open("/root/.vp/MANIFEST.schema.json")))
        print("MANIFEST.json valid;", len(checks), "checks,", len(na), "not_applicable")
    except ImportError:
        print("written (jsonschema not available for validation)")

if __name__ == "__main__":
    main()
