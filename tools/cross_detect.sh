#!/bin/bash
# usage: tools/cross_detect.sh <seeded-id> <CHECK> [...]  -> appends verified detections to seeded/<id>/detections.txt
ID=$1; shift
for c in "$@"; do
  r=$(tools/try_patch.sh seeded/$ID/patch.diff $c 2>&1 | grep -E "^== " )
  echo "$ID $c $r" | tee -a seeded/$ID/detections.txt
done
