"""Prototype 2: hash-consed AIG+XOR literals in pure Python, z3 only at query time."""
import z3, time, numpy as np
# literal = 2*node + neg ; node 0 = constant False  => lit 0 = False, lit 1 = True
_nodes=[('c',)]; _tab={}
def _mk(key):
    i=_tab.get(key)
    if i is None:
        i=len(_nodes); _nodes.append(key); _tab[key]=i
    return 2*i
def var(name): return _mk(('v',name))
def lnot(a): return a^1
def land(a,b):
    if a==0 or b==0: return 0
    if a==1: return b
    if b==1: return a
    if a==b: return a
    if a==b^1: return 0
    if a>b: a,b=b,a
    return _mk(('a',a,b))
def lor(a,b): return land(a^1,b^1)^1
def lxor(a,b):
    if a<2: return b^a
    if b<2: return a^b
    if a==b: return 0
    if a==b^1: return 1
    neg=(a&1)^(b&1); a&=~1; b&=~1
    if a>b: a,b=b,a
    return _mk(('x',a,b))^neg
_z3memo={}
def toz3(l):
    if l==0: return z3.BoolVal(False)
    if l==1: return z3.BoolVal(True)
    n=l>>1; e=_z3memo.get(n)
    if e is None:
        # iterative post-order
        stack=[n]
        while stack:
            m=stack[-1]
            if m in _z3memo: stack.pop(); continue
            k=_nodes[m]
            if k[0]=='v': _z3memo[m]=z3.Bool(k[1]); stack.pop(); continue
            ch=[c>>1 for c in k[1:] if c>1 and (c>>1) not in _z3memo]
            if ch: stack.extend(ch); continue
            def g(c): return z3.BoolVal(bool(c)) if c<2 else (z3.Not(_z3memo[c>>1]) if c&1 else _z3memo[c>>1])
            _z3memo[m]= z3.And(g(k[1]),g(k[2])) if k[0]=='a' else z3.Xor(g(k[1]),g(k[2]))
            stack.pop()
        e=_z3memo[n]
    return z3.Not(e) if l&1 else e

class Abort(BaseException): pass
class Ctx:
    cur=None
    def __init__(self): self.solver=z3.Solver(); self.prefix=[]; self.pos=0; self.queries=0; self.solver_time=0.0
    def check(self,*extra):
        t=time.time(); self.queries+=1; r=self.solver.check(*extra); self.solver_time+=time.time()-t; return r
    def branch(self,l):
        if l==1: return True
        if l==0: return False
        if self.pos<len(self.prefix): d,_=self.prefix[self.pos]
        else:
            c=toz3(l)
            can_t=self.check(c)==z3.sat
            can_f=True if not can_t else self.check(z3.Not(c))==z3.sat
            if can_t and can_f: d=True; self.prefix.append((True,True))
            elif can_t: d=True; self.prefix.append((True,False))
            else: d=False; self.prefix.append((False,False))
        self.pos+=1; self.solver.add(toz3(l if d else l^1)); return d
def explore(fn, setup=None):
    prefix=[]; stats=dict(paths=0,queries=0,solver_time=0.0,cex=None)
    while True:
        ctx=Ctx(); ctx.prefix=prefix; Ctx.cur=ctx
        obs=fn(); stats['paths']+=1
        ob=1
        for o in obs: ob=land(ob,o)
        if ob!=1:
            if ob==0 or ctx.check(toz3(ob^1))==z3.sat:
                stats['cex']=True; stats['queries']+=ctx.queries; stats['solver_time']+=ctx.solver_time; return stats
        stats['queries']+=ctx.queries; stats['solver_time']+=ctx.solver_time
        prefix=ctx.prefix
        while prefix and not prefix[-1][1]: prefix.pop()
        if not prefix: return stats
        d,_=prefix.pop(); prefix.append((not d,False))

def _trim(bits):
    n=len(bits)
    while n and bits[n-1]==0: n-=1
    return bits[:n]
def mk(bits):
    bits=_trim(tuple(bits))
    if all(b<2 for b in bits):
        return sum(b<<i for i,b in enumerate(bits))
    return SV(bits)
def bitsof(x):
    if isinstance(x,SV): return x.bits
    if isinstance(x,SB): return (x.l,)
    x=int(x); assert x>=0, "negative"
    out=[]
    while x: out.append(x&1); x>>=1
    return tuple(out)
class SB:
    __slots__=("l",)
    def __init__(self,l): self.l=l
    def __bool__(self): return Ctx.cur.branch(self.l)
def mkb(l): return bool(l) if l<2 else SB(l)
class SV:
    """unsigned symbolic integer, little-endian tuple of literals"""
    __slots__=("bits",)
    def __init__(self,bits): self.bits=bits
    def __add__(self,o):
        if isinstance(o,np.ndarray): return NotImplemented
        a=self.bits; b=bitsof(o); n=max(len(a),len(b)); out=[]; c=0
        for i in range(n):
            x=a[i] if i<len(a) else 0; y=b[i] if i<len(b) else 0
            t=lxor(x,y); out.append(lxor(t,c)); c=lor(land(x,y),land(c,t))
        out.append(c); return mk(out)
    __radd__=__add__
    def __mul__(self,o):
        if isinstance(o,np.ndarray): return NotImplemented
        b=bitsof(o); acc=0
        for i,x in enumerate(self.bits):
            if x==0: continue
            term=mk((0,)*i+tuple(land(x,y) for y in b))
            acc=acc+term if not isinstance(acc,int) or acc else term
        return acc
    __rmul__=__mul__
    def __mod__(self,m): assert m==2; return mk(self.bits[:1])
    def _bw(self,o,f):
        a=self.bits; b=bitsof(o); n=max(len(a),len(b))
        return mk([f(a[i] if i<len(a) else 0, b[i] if i<len(b) else 0) for i in range(n)])
    def __xor__(self,o):
        if isinstance(o,np.ndarray): return NotImplemented
        return self._bw(o,lxor)
    __rxor__=__xor__
    def __and__(self,o):
        if isinstance(o,np.ndarray): return NotImplemented
        return self._bw(o,land)
    __rand__=__and__
    def __or__(self,o):
        if isinstance(o,np.ndarray): return NotImplemented
        return self._bw(o,lor)
    __ror__=__or__
    def eql(self,o):
        a=self.bits; b=bitsof(o); n=max(len(a),len(b)); e=1
        for i in range(n): e=land(e,lxor(a[i] if i<len(a) else 0, b[i] if i<len(b) else 0)^1)
        return e
    def __eq__(self,o): return mkb(self.eql(o))
    def __ne__(self,o): return mkb(self.eql(o)^1)
    def ltl(self,o):
        a=self.bits; b=bitsof(o); n=max(len(a),len(b)); lt=0
        for i in range(n):
            x=a[i] if i<len(a) else 0; y=b[i] if i<len(b) else 0
            lt=lor(land(x^1,y), land(lxor(x,y)^1,lt))
        return lt
    def __lt__(self,o): return mkb(self.ltl(o))
    def __gt__(self,o):
        b=bitsof(o); return mkb(SV(b).ltl(self) if b else (self.eql(0)^1))
    def __bool__(self): return Ctx.cur.branch(self.eql(0)^1)
    def __hash__(self): return hash(self.bits)
    def __deepcopy__(self,memo): return self
    def __copy__(self): return self
    def realize(self):
        v=0
        for i,b in enumerate(self.bits):
            if Ctx.cur.branch(b): v|=1<<i
        return v
    __index__=realize; __int__=realize
    def __str__(self): return str(self.realize())
    def __rsub__(self,o):  # only 1 - bit
        assert o==1 and len(self.bits)==1; return mk((self.bits[0]^1,))
