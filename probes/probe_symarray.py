import numpy as np
class SymArray(np.ndarray):
    def __new__(cls, arr, nominal=np.int8):
        o=np.asarray(arr,dtype=object).view(cls); o._nom=np.dtype(nominal); return o
    def __array_finalize__(self,obj): self._nom=getattr(obj,'_nom',np.dtype(np.int8))
    @property
    def dtype(self): return self._nom
    def astype(self,dt,*a,**k):
        r=self.copy(); r._nom=np.dtype(dt); return r
a=SymArray([[1,0],[1,1]])
print(type(a), a.dtype, a.dtype!=np.int8, type(a.T), type(a[0,:]), type(a%2), type(a@a), type((a@a)&1), a.astype(np.int64).dtype, type(a.reshape(4)), type(a.copy()))
b=np.concatenate([a,a]); print(type(b), np.ndarray.dtype.__get__(b))
print(type(np.block([[a,a],[a,a]])), isinstance(a,np.ndarray), type(a)==np.ndarray)
a[[0,1]]=a[[1,0]]; print(a.tolist(), type(a[:,[0,1]]))
