import os, sys, time, warnings
os.environ.setdefault("RAYON_NUM_THREADS","1"); os.environ.setdefault("OMP_NUM_THREADS","1"); os.environ.setdefault("OPENBLAS_NUM_THREADS","1")
warnings.filterwarnings("ignore")
sys.path.insert(0,'/repo/src')
import z3, numpy as np
from qiskit import QuantumCircuit
from qiskit.quantum_info import StabilizerState, Pauli
from htstabilizer.stabilizer_circuits import get_preparation_circuit
from htstabilizer.stabilizer import Stabilizer
s=z3.Solver(); xs=[z3.Bool(f"x{i}") for i in range(6)]; s.add(z3.Or(xs)); assert s.check()==z3.sat
get_preparation_circuit(Stabilizer(["XZZ","ZXI","ZIX"]),"linear")  # warm qiskit (passmanager etc.) in parent
def explore(depth, bits):
    if depth==6:
        # leaf: use z3 + qiskit + library in the (possibly forked) process
        for i,b in enumerate(bits): s.add(xs[i]==b)
        r=s.check()
        st=Stabilizer([("-" if bits[0] else "")+"XZZ",("-" if bits[1] else "")+"ZXI",("-" if bits[2] else "")+"ZIX"])
        qc=get_preparation_circuit(st,"linear")
        lab=StabilizerState(qc).clifford.to_labels(mode="S")
        os.write(wfd, (f"{''.join(map(str,map(int,bits)))} {r} {len(qc.data)} {lab}\n").encode())
        return
    pid=os.fork()
    if pid==0:
        explore(depth+1,bits+[True]); os._exit(0)
    explore(depth+1,bits+[False])
    os.waitpid(pid,0)
rfd,wfd=os.pipe()
t=time.time(); explore(0,[]); os.close(wfd)
data=b""
while True:
    c=os.read(rfd,65536)
    if not c: break
    data+=c
lines=data.decode().strip().split("\n"); print(len(lines),"leaves in",round(time.time()-t,2),"s; sample:",lines[0], "| unsat leaves:",sum(' unsat ' in l for l in lines))
