import sys, time, warnings, random
warnings.filterwarnings("ignore")
sys.path.insert(0,'/repo/src')
exec(open('probe_lc2.py').read().split("tot=0")[0])
from htstabilizer.stabilizer import Stabilizer
from htstabilizer.lc_classes import determine_lc_class
from htstabilizer.stabilizer_circuits import get_preparation_circuit
from qiskit import QuantumCircuit
def two_q(qc): 
    return sum({'cx':1,'cz':1,'swap':3}.get(i.operation.name,0) for i in qc.data)
for c in [369,315]:
    D=[d for d in range(K) if cost[d]>=cost[c]+2]
    s=z3.Solver()
    X,Z=graph_tab(adjs[c]); L,lc=layer_vars(n,"l"); M,mc=layer_vars(n,"m")
    e=[[None]*n for _ in range(n)]
    for i in range(n):
        for j in range(i+1,n): e[i][j]=e[j][i]=z3.Bool(f"g{i}{j}")
    s.add(z3.Or([z3.And([e[i][j]==bool(adjs[d][i][j]) for i in range(n) for j in range(i+1,n)]) for d in D]))
    sel=[z3.Bool(f"e{k}") for k in range(len(edges))]
    s.add(z3.PbEq([(b,1) for b in sel],1))
    alts=[]
    for k,(i,j) in enumerate(edges):
        X1,Z1=apply_layer(L,X,Z,[i,j]); X2,Z2=cz(X1,Z1,i,j); X3,Z3=apply_layer(M,X2,Z2)
        alts.append(z3.And(sel[k], *sym_graph_group(e,X3,Z3)))
    s.add(lc+mc); s.add(z3.Or(alts))
    assert s.check()==z3.sat; m=s.model()
    k=[k for k in range(len(edges)) if z3.is_true(m.eval(sel[k]))][0]; (i,j)=edges[k]
    def lv(Lq): return [int(z3.is_true(m.eval(v,model_completion=True))) for v in Lq]
    gates={ (1,0,0,1):[], (0,1,1,0):['h'], (1,0,1,1):['s'], (1,1,1,0):['s','h'], (0,1,1,1):['h','s'], (1,1,0,1):['h','s','h']}
    qc=infos[c].parse_circuit()
    for q in (i,j):
        for g in gates[tuple(lv(L[q]))]: getattr(qc,g)(q)
    qc.cz(i,j)
    st=Stabilizer(qc); cid=determine_lc_class(st).id()
    print("src class",c,"cost",cost[c],"edge",(i,j),"L",lv(L[i]),lv(L[j]),"-> new class",cid,"table cost",cost[cid],"circuit 2q count",two_q(qc))
    print("   library delivers", two_q(get_preparation_circuit(st, conn)))
