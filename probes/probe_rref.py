import sys, time, warnings, types
sys.path.insert(0,'/repo/src')
import numpy as np, z3
from symcore import *
import htstabilizer.f2_algebra as f2

def sym_matrix(m,n,name="a"):
    A = np.empty((m,n),dtype=object)
    for i in range(m):
        for j in range(n): A[i,j] = SymInt.bit(z3.Bool(f"{name}_{i}_{j}"))
    return A

def run(m,n):
    def fn():
        A = sym_matrix(m,n)
        R, piv = f2.rref(A)
        obs=[]
        # RREF shape obligations (pivot cols concrete per path)
        for r,c in enumerate(piv):
            for i in range(m):
                obs.append(R[i,c].eqz(1 if i==r else 0))
            for j in range(c): obs.append(R[r,j].eqz(0))
        for r in range(len(piv),m):
            for j in range(n): obs.append(R[r,j].eqz(0))
        # kernel equality: forall x: A x = 0 <=> R x = 0   (negated: exists x)
        x=[z3.Bool(f"x{j}") for j in range(n)]
        def ker(M):
            e=T
            for i in range(m):
                s=F
                for j in range(n): s=b_xor(s,b_and(M[i,j].bits[0],x[j]))
                e=b_and(e,b_not(s))
            return e
        A0 = sym_matrix(m,n)
        obs.append(ker(A0)==ker(R))
        return obs
    t=time.time(); st=explore(fn); st['wall']=time.time()-t; st['shape']=(m,n)
    print(st)
for shp in [(2,2),(3,3),(4,4),(4,6),(6,4),(5,5),(6,6)]:
    run(*shp)
