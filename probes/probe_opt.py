import sys, time, warnings, json
warnings.filterwarnings("ignore")
sys.path.insert(0,'/repo/src')
n=int(sys.argv[1]); conn=sys.argv[2]
src=open('probe_lc.py').read().split("# one-step query")[0].replace('n=6; conn=sys.argv[1] if len(sys.argv)>1 else "linear"','')
exec(src)
exec(open('probe_lc2.py').read().split("tot=0")[0].split("random.seed(2)")[1])
phi=list(cost); t00=time.time(); nq=0
changed=True; sweeps=0
while changed:
    changed=False; sweeps+=1
    for c in range(K):
        while True:
            D=[d for d in range(K) if phi[d]>=phi[c]+2]
            if not D: break
            s=z3.Solver()
            X,Z=graph_tab(adjs[c]); L,lc=layer_vars(n,"l"); M,mc=layer_vars(n,"m")
            e=[[None]*n for _ in range(n)]
            for i in range(n):
                for j in range(i+1,n): e[i][j]=e[j][i]=z3.Bool(f"g{i}{j}")
            s.add(z3.Or([z3.And([e[i][j]==bool(adjs[d][i][j]) for i in range(n) for j in range(i+1,n)]) for d in D]))
            alts=[]
            for k,(i,j) in enumerate(edges):
                X1,Z1=apply_layer(L,X,Z,[i,j]); X2,Z2=cz(X1,Z1,i,j); X3,Z3=apply_layer(M,X2,Z2)
                alts.append(z3.And(*sym_graph_group(e,X3,Z3)))
            s.add(lc+mc); s.add(z3.Or(alts)); nq+=1
            if s.check()!=z3.sat: break
            m=s.model()
            for d in D:
                if all(z3.is_true(m.eval(e[i][j],model_completion=True))==bool(adjs[d][i][j]) for i in range(n) for j in range(i+1,n)):
                    phi[d]=phi[c]+1; changed=True; break
bad=[(d,cost[d],phi[d]) for d in range(K) if phi[d]<cost[d]]
print(json.dumps(dict(n=n,conn=conn,K=K,sweeps=sweeps,queries=nq,wall=round(time.time()-t00,1),nonoptimal=bad)))
