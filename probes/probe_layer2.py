import sys, time, warnings, types
warnings.filterwarnings("ignore")
sys.path.insert(0,'/repo/src')
import numpy as real_np, z3
from fastcore import *
class NPProxy(types.ModuleType):
    def __getattr__(self,k): return getattr(real_np,k)
    def zeros(self,shape,dtype=None,**kw):
        a=real_np.empty(shape,dtype=object); a.fill(0); return a
    def ones(self,shape,dtype=None,**kw):
        a=real_np.empty(shape,dtype=object); a.fill(1); return a
    def eye(self,n,dtype=None,**kw): return real_np.eye(n,dtype=int).astype(object)
    def sum(self,a,**kw):
        acc=0
        for v in a.reshape(-1): acc=acc+v
        return acc
npx=NPProxy("npx")
import htstabilizer.stabilizer as st, htstabilizer.lc_classes as lc, htstabilizer.graph as gr, htstabilizer.f2_algebra as f2, htstabilizer.find_local_clifford_layer as fl
for m in (st,lc,f2,fl): m.np=npx
from htstabilizer.graph import Graph
from htstabilizer import circuit_lookup
n=int(sys.argv[1]); conn=sys.argv[2]; cid=int(sys.argv[3]); ksym=int(sys.argv[4])
cls={2:lc.LCClass2,3:lc.LCClass3,4:lc.LCClass4,5:lc.LCClass5,6:lc.LCClass6}[n]
g=cls(cid).get_graph(); adj=g.adjacency_matrix
info=circuit_lookup.stabilizer_circuit_lookup(n,conn,cid); tg=Graph.decompress(n,info.graph_id)
def fn():
    R=real_np.empty((n,n),dtype=object); S=real_np.empty((n,n),dtype=object)
    for q in range(n):
        if q<ksym:
            a,b,c,d=[var(f"l{q}{k}") for k in "abcd"]; Ctx.cur.solver.add(toz3(lxor(land(a,d),land(b,c))))
        else: a,b,c,d=1,0,0,1
        for gi in range(n):
            x=1 if q==gi else 0; z=1 if adj[q,gi] else 0
            R[q,gi]=mk((lxor(land(a,x),land(b,z)),)); S[q,gi]=mk((lxor(land(c,x),land(d,z)),))
    t=time.time()
    A=fl.find_local_clifford_layer(R,S,tg)
    if A is None: return [0]
    Axx,Axz,Azx,Azz=A; gam=tg.adjacency_matrix.astype(object)
    LHS=(((gam@Axx)@R)+((gam@Axz)@S)+(Azx@R)+(Azz@S))
    obs=[]
    for v in LHS.reshape(-1):
        b=bitsof(v); obs.append((b[0]^1) if b else 1)
    return obs
t=time.time(); stt=explore(fn); print(n,conn,cid,"ksym",ksym,{k:(round(v,2) if isinstance(v,float) else v) for k,v in stt.items()}, round(time.time()-t,2), "nodes",len(__import__('fastcore')._nodes))
