import sys, warnings
warnings.filterwarnings("ignore")
sys.path.insert(0,'/repo/src')
import numpy as np
from htstabilizer import f2_algebra as f2
from htstabilizer.graph import Graph
from htstabilizer.stabilizer import Stabilizer
from htstabilizer.find_local_clifford_layer import find_local_clifford_layer
from htstabilizer.tomography import CircuitResult
from htstabilizer import mub_circuits, circuit_lookup
# 1 trivial kernel
k = f2.null_space(np.eye(3,dtype=np.int8)); print("null_space(I3):", repr(k), k.shape)
# 2 layer search, no layer exists: GHZ-3 vs empty graph
try:
    print("layer:", find_local_clifford_layer(Stabilizer(Graph.star(3)).R, Stabilizer(Graph.star(3)).S, Graph(3)))
except Exception as e: print("layer exc:", type(e), e)
for n in (4,5):
  try:
    s=Stabilizer(Graph.star(n)); print("layer n",n, find_local_clifford_layer(s.R, s.S, Graph.linear(n)))
  except Exception as e: print("layer exc:", n, type(e), e)
# 3 marginalisation
cr = CircuitResult({"011": 7}, [0,1]); print("marg [0,1] of '011' (q0=1,q1=1,q2=0):", cr)
cr = CircuitResult({"001": 7}, [0,1]); print("marg [0,1] of '001' (q0=1):", cr)
# 4 mub aliasing
m = mub_circuits.get_mubs(3,"linear"); m[0][0]="XXX"; print("after mutation:", mub_circuits.get_mubs(3,"linear")[0])
m = mub_circuits.get_mubs(3,"linear"); m.pop(); print(len(mub_circuits.get_mubs(3,"linear")))
# 5 Graph ctor mutates input?
a = np.array([[0,3],[3,0]],dtype=np.int8); Graph(a); print("graph input after:", a.tolist())
