import sys, warnings, itertools, random, collections
warnings.filterwarnings("ignore")
sys.path.insert(0,'/repo/src')
import numpy as np
from qiskit.quantum_info import Pauli, Clifford
from htstabilizer.stabilizer import Stabilizer
from htstabilizer.stabilizer_circuits import get_preparation_circuit, get_readout_circuit
def valid(R,S):
    n=R.shape[0]
    for c in range(1,2**n):
        v=np.array([(c>>j)&1 for j in range(n)])
        if not ((R@v)%2).any() and not ((S@v)%2).any(): return False
    return not ((R.T@S+S.T@R)%2).any()
def paulis(R,S):
    n=R.shape[0]; out=[]
    for j in range(n):
        out.append(Pauli("".join("IXZY"[R[i,j]+2*S[i,j]] for i in reversed(range(n)))))
    return out
def run(n, conn, cases):
    stats=collections.Counter(); bad=[]
    for R,S in cases:
        st=Stabilizer((R.copy(),S.copy())); v=valid(R,S)
        try:
            qc=get_preparation_circuit(st,conn); out="ret"
        except BaseException as e: out=type(e).__name__
        stats[("prep",v,out)]+=1
        if out=="ret":
            cl=Clifford(qc)
            ok=all((lambda p:(not p.x.any()) and p.phase==0)(P.evolve(cl,frame="h")) for P in paulis(R,S))
            if not v or not ok: bad.append(("prep",R.tolist(),S.tolist(),v,ok))
        st=Stabilizer((R.copy(),S.copy()))
        try:
            qc=get_readout_circuit(st,conn); out="ret"
        except BaseException as e: out=type(e).__name__
        stats[("read",v,out)]+=1
        if out=="ret":
            cl=Clifford(qc)
            ok=all(not P.evolve(cl,frame="s").x.any() for P in paulis(R,S))
            if not ok: bad.append(("read",R.tolist(),S.tolist(),v,ok))
    print(n,conn,dict(stats)); print("  bad:",len(bad),bad[:4])
n=2
cases=[(np.array(b[:4],dtype=np.int8).reshape(2,2),np.array(b[4:],dtype=np.int8).reshape(2,2)) for b in itertools.product([0,1],repeat=8)]
run(2,"all",cases)
random.seed(3)
cases=[]
for _ in range(3000):
    b=[random.randint(0,1) for _ in range(18)]
    cases.append((np.array(b[:9],dtype=np.int8).reshape(3,3),np.array(b[9:],dtype=np.int8).reshape(3,3)))
run(3,"linear",cases)
cases=[]
for _ in range(1500):
    b=[random.randint(0,1) for _ in range(32)]
    cases.append((np.array(b[:16],dtype=np.int8).reshape(4,4),np.array(b[16:],dtype=np.int8).reshape(4,4)))
run(4,"star",cases)
