import sys
sys.path.insert(0, '/repo/src')
from typing import List
from htstabilizer.stabilizer import Stabilizer

def _ref_parse(p: str):
    sign = 0
    body = p
    if p[:1] == "+": body = p[1:]
    elif p[:1] == "-": body = p[1:]; sign = 1
    xs = [1 if c in ("X", "Y") else 0 for c in body]
    zs = [1 if c in ("Z", "Y") else 0 for c in body]
    return sign, xs, zs

def parse2(a: str, b: str) -> bool:
    """
    pre: len(a) in (2, 3) and len(b) in (2, 3)
    pre: all(c in "IXYZ" for c in a[-2:]) and all(c in "IXYZ" for c in b[-2:])
    pre: len(a) == 2 or a[0] in "+-"
    pre: len(b) == 2 or b[0] in "+-"
    post: _
    """
    s = Stabilizer([a, b])
    ok = True
    for j, p in enumerate([a, b]):
        sign, xs, zs = _ref_parse(p)
        ok = ok and int(s.phases[j]) == sign
        for i in range(2):
            ok = ok and int(s.R[i, j]) == xs[i] and int(s.S[i, j]) == zs[i]
    # round trip
    norm = [("+" + p) if p[0] not in "+-" else p for p in [a, b]]
    ok = ok and s.to_list() == norm
    return ok
