"""Prototype: fork-based symbolic execution core (decision-prefix re-execution) + SymInt with Bool bit-lists."""
import z3, time
import numpy as np
W = 8
class Abort(BaseException): pass
class Ctx:
    cur = None
    def __init__(self):
        self.solver = z3.Solver(); self.prefix = []; self.pos = 0; self.pc = []; self.queries = 0; self.solver_time = 0.0
    def check(self, *extra):
        t=time.time(); self.queries += 1
        r = self.solver.check(*extra); self.solver_time += time.time()-t
        return r
    def branch(self, cond):
        """cond: z3 Bool. returns python bool, forking as needed."""
        if z3.is_true(cond): return True
        if z3.is_false(cond): return False
        if self.pos < len(self.prefix):
            d, _ = self.prefix[self.pos]
        else:
            can_t = self.check(cond) == z3.sat
            can_f = self.check(z3.Not(cond)) == z3.sat
            if can_t and can_f: d = True; self.prefix.append((True, True))   # (decision, other_pending)
            elif can_t: d = True; self.prefix.append((True, False))
            elif can_f: d = False; self.prefix.append((False, False))
            else: raise Abort("infeasible path")
        self.pos += 1
        c = cond if d else z3.Not(cond)
        self.solver.add(c); self.pc.append(c)
        return d
def explore(fn, base_constraints=()):
    """run fn() over all feasible paths; fn returns list of z3 Bool obligations (must hold). yields (path_idx, result)"""
    prefix = []; n=0; stats=dict(paths=0, queries=0, solver_time=0.0, cex=None)
    while True:
        ctx = Ctx(); ctx.prefix = prefix; Ctx.cur = ctx
        for c in base_constraints: ctx.solver.add(c)
        obligations = fn()
        stats['paths'] += 1
        for ob in obligations:
            if z3.is_true(ob): continue
            if ctx.check(z3.Not(ob)) == z3.sat:
                stats['cex'] = ctx.solver.model(); stats['queries']+=ctx.queries; stats['solver_time']+=ctx.solver_time
                return stats
        stats['queries']+=ctx.queries; stats['solver_time']+=ctx.solver_time
        # backtrack
        prefix = ctx.prefix
        while prefix and not prefix[-1][1]: prefix.pop()
        if not prefix: return stats
        d,_ = prefix.pop(); prefix.append((not d, False))

T = z3.BoolVal(True); F = z3.BoolVal(False)
def b_and(a,b):
    if z3.is_false(a) or z3.is_false(b): return F
    if z3.is_true(a): return b
    if z3.is_true(b): return a
    if a.eq(b): return a
    return z3.And(a,b)
def b_or(a,b):
    if z3.is_true(a) or z3.is_true(b): return T
    if z3.is_false(a): return b
    if z3.is_false(b): return a
    if a.eq(b): return a
    return z3.Or(a,b)
def b_xor(a,b):
    if z3.is_false(a): return b
    if z3.is_false(b): return a
    if z3.is_true(a): return b_not(b)
    if z3.is_true(b): return b_not(a)
    if a.eq(b): return F
    return z3.Xor(a,b)
def b_not(a):
    if z3.is_true(a): return F
    if z3.is_false(a): return T
    return z3.Not(a)

class SymInt:
    """two's complement W-bit integer as list of z3 Bools (LSB first)"""
    __slots__=("bits",)
    def __init__(self, bits): self.bits = bits
    @staticmethod
    def const(v): return SymInt([T if (v>>i)&1 else F for i in range(W)])
    @staticmethod
    def bit(b): return SymInt([b]+[F]*(W-1))
    @staticmethod
    def lift(x):
        if isinstance(x, SymInt): return x
        if isinstance(x, SymBool): return SymInt.bit(x.e)
        return SymInt.const(int(x))
    def __add__(self, o):
        if isinstance(o, np.ndarray): return NotImplemented
        o = SymInt.lift(o); out=[]; c=F
        for a,b in zip(self.bits,o.bits):
            out.append(b_xor(b_xor(a,b),c)); c = b_or(b_and(a,b), b_and(c,b_xor(a,b)))
        return SymInt(out)
    __radd__ = __add__
    def __mul__(self, o):
        if isinstance(o, np.ndarray): return NotImplemented
        o = SymInt.lift(o); acc = SymInt.const(0)
        for i,a in enumerate(self.bits):
            if z3.is_false(a): continue
            acc = acc + SymInt([F]*i + [b_and(a,b) for b in o.bits[:W-i]])
        return acc
    __rmul__ = __mul__
    def __mod__(self, m):
        assert m == 2; return SymInt([self.bits[0]]+[F]*(W-1))
    def __xor__(self,o):
        if isinstance(o, np.ndarray): return NotImplemented
        o=SymInt.lift(o); return SymInt([b_xor(a,b) for a,b in zip(self.bits,o.bits)])
    __rxor__=__xor__
    def __and__(self,o):
        if isinstance(o, np.ndarray): return NotImplemented
        o=SymInt.lift(o); return SymInt([b_and(a,b) for a,b in zip(self.bits,o.bits)])
    __rand__=__and__
    def __or__(self,o):
        if isinstance(o, np.ndarray): return NotImplemented
        o=SymInt.lift(o); return SymInt([b_or(a,b) for a,b in zip(self.bits,o.bits)])
    __ror__=__or__
    def eqz(self, o):
        o=SymInt.lift(o); e=T
        for a,b in zip(self.bits,o.bits): e=b_and(e,b_not(b_xor(a,b)))
        return e
    def __eq__(self,o): return SymBool(self.eqz(o))
    def __ne__(self,o): return SymBool(b_not(self.eqz(o)))
    def __bool__(self): return Ctx.cur.branch(b_not(self.eqz(0)))
    def __hash__(self): return id(self)
    def __repr__(self): return "SymInt(..)"
class SymBool:
    __slots__=("e",)
    def __init__(self,e): self.e=e
    def __bool__(self): return Ctx.cur.branch(self.e)
