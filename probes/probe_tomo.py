import sys, warnings, itertools, types
from fractions import Fraction
warnings.filterwarnings("ignore")
sys.path.insert(0,'/repo/src')
import numpy as real_np
from qiskit import QuantumCircuit
from qiskit.quantum_info import Pauli
import htstabilizer.tomography as tomo
class Lin:
    """exact linear form sum c_v * v + const over Fractions"""
    __slots__=("t",)
    def __init__(self,t=None): self.t={k:v for k,v in (t or {}).items() if v!=0}
    @staticmethod
    def lift(x): return x if isinstance(x,Lin) else Lin({1:Fraction(x)})
    def __add__(self,o):
        if isinstance(o,real_np.ndarray): return NotImplemented
        o=Lin.lift(o); t=dict(self.t)
        for k,v in o.t.items(): t[k]=t.get(k,0)+v
        return Lin(t)
    __radd__=__add__
    def __neg__(self): return Lin({k:-v for k,v in self.t.items()})
    def __sub__(self,o): return self+(-Lin.lift(o))
    def __rsub__(self,o): return Lin.lift(o)-self
    def __mul__(self,o):
        if isinstance(o,real_np.ndarray): return NotImplemented
        if isinstance(o,Lin):
            assert set(o.t)<={1}; o=o.t.get(1,0)
        if isinstance(o,complex): assert o.imag==0; o=o.real
        return Lin({k:v*Fraction(o) for k,v in self.t.items()})
    __rmul__=__mul__
    def __truediv__(self,o):
        o=Lin.lift(o); assert set(o.t)=={1}, ("division by non-constant",o.t); return self*(1/o.t[1])
    def __eq__(self,o): return self.t==Lin.lift(o).t
    def __repr__(self): return "Lin(%s)"%self.t
def pauli_key(p): return p.to_label().lstrip("+-")
def run(N, conn, measured):
    m=len(measured) if measured is not None else N
    prep=QuantumCircuit(N)
    circs=tomo.full_state_tomography_circuits(prep, conn, measured)
    labels=["".join(t) for t in itertools.product("IXYZ",repeat=N)]   # qiskit label order: leftmost = qubit N-1
    r={l:(Lin({1:Fraction(1)}) if set(l)=={"I"} else Lin({l:Fraction(1)})) for l in labels}
    counts_list=[]
    for c in circs:
        U=c.remove_final_measurements(inplace=False)
        probs={}
        # p(b) = 2^-N sum_s (-1)^{s.b} Tr(rho U^dag Z^s U)
        pulled=[]
        for s in range(2**N):
            z=Pauli("".join("Z" if (s>>(N-1-i))&1 else "I" for i in range(N)))  # label leftmost = qubit N-1
            p=z.evolve(U, frame="h")   # U^dag Z U
            sign={0:1,2:-1}[int(p.phase)]; pulled.append((s,sign,pauli_key(p)))
        for b in range(2**N):
            acc=Lin()
            for s,sign,lab in pulled:
                acc=acc+r[lab]*(sign*(-1)**bin(s&b).count("1"))
            probs[format(b,f"0{N}b")]=acc*Fraction(1,2**N)
        counts_list.append(probs)
    class Res:
        def get_counts(self): return counts_list
    # total counts = 1 (a Lin constant) -> division by Lin const OK
    fit=tomo.FullStateTomographyFitter(Res(), circs)
    bad=0; tot=0
    for full in ([True,False] if measured is not None else [True]):
        ev=fit.expectation_values(full_hilbert_space=full)
        for P,val in ev.items():
            lab=pauli_key(P); tot+=1
            if full or measured is None: want=r[lab] if len(lab)==N else None
            else:
                chars=["I"]*N
                for idx,q in enumerate(measured): chars[N-1-q]=lab[m-1-idx]
                want=r["".join(chars)]
            if not (Lin.lift(val)==want):
                bad+=1
                if bad<=3: print("   MISMATCH",N,conn,measured,"full" if full else "sub",lab,"got",val,"want",want)
        print(N,conn,measured,"full" if full else "sub","keys",len(ev),"bad",bad,"of",tot)
run(2,"all",None); run(3,"linear",None); run(3,"all",[0,2]); run(3,"all",[0,1]); run(3,"all",[2,0])
