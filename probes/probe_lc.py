import sys, time, warnings, itertools
warnings.filterwarnings("ignore")
sys.path.insert(0,'/repo/src')
import z3, numpy as np
from htstabilizer.graph import Graph
from htstabilizer import circuit_lookup
from htstabilizer.connectivity_support import get_connectivity_graph

def layer_vars(n, tag):
    L=[]; cons=[]
    for q in range(n):
        a,b,c,d=[z3.Bool(f"{tag}{q}{k}") for k in "abcd"]
        cons.append(z3.Xor(z3.And(a,d), z3.And(b,c)))   # det = 1
        L.append((a,b,c,d))
    return L, cons
def apply_layer(L, X, Z, qubits=None):
    # X,Z: lists [qubit][gen] of z3 Bool; x' = a x + b z ; z' = c x + d z
    n=len(X); X2=[r[:] for r in X]; Z2=[r[:] for r in Z]
    for q in (qubits if qubits is not None else range(n)):
        a,b,c,d=L[q]
        for g in range(len(X[q])):
            x,z=X[q][g],Z[q][g]
            X2[q][g]=z3.Xor(z3.And(a,x),z3.And(b,z)); Z2[q][g]=z3.Xor(z3.And(c,x),z3.And(d,z))
    return X2,Z2
def graph_tab(adj):
    n=len(adj)
    X=[[z3.BoolVal(i==g) for g in range(n)] for i in range(n)]
    Z=[[z3.BoolVal(bool(adj[i][g])) for g in range(n)] for i in range(n)]
    return X,Z
def in_graph_group(adj, X, Z):
    # for each generator g: z = Gamma x
    n=len(adj); cons=[]
    for g in range(len(X[0])):
        for i in range(n):
            s=z3.BoolVal(False)
            for j in range(n):
                if adj[i][j]: s=z3.Xor(s,X[j][g])
            cons.append(Z[i][g]==s)
    return cons
def cz(X,Z,i,j):
    X2=[r[:] for r in X]; Z2=[r[:] for r in Z]
    for g in range(len(X[0])):
        Z2[i][g]=z3.Xor(Z[i][g],X[j][g]); Z2[j][g]=z3.Xor(Z[j][g],X[i][g])
    return X2,Z2

n=6; conn=sys.argv[1] if len(sys.argv)>1 else "linear"
K={2:2,3:5,4:18,5:93,6:760}[n]
infos=[circuit_lookup.stabilizer_circuit_lookup(n,conn,c) for c in range(K)]
adjs=[Graph.decompress(n,i.graph_id).adjacency_matrix.tolist() for i in infos]
cost=[i.cost for i in infos]
edges=get_connectivity_graph(n,conn).get_edges()
# one-step query: exists L on (i,j), M on all: M CZ_ij L Gamma_c in group(Gamma_d), for pairs cost[d] >= cost[c]+2  -> expect unsat
import random; random.seed(1)
pairs=[(c,d) for c in range(K) for d in range(K) if cost[d]>=cost[c]+2]
print("pairs needing unsat:", len(pairs), "edges", len(edges))
sample=random.sample(pairs, 40)
t0=time.time(); res={}
for c,d in sample:
    s=z3.Solver()
    X,Z=graph_tab(adjs[c])
    L,lc=layer_vars(n,"l"); M,mc=layer_vars(n,"m")
    sel=[z3.Bool(f"e{k}") for k in range(len(edges))]
    s.add(z3.PbEq([(b,1) for b in sel],1))
    # encode: for each edge selected
    alts=[]
    for k,(i,j) in enumerate(edges):
        X1,Z1=apply_layer(L,X,Z,[i,j]); X2,Z2=cz(X1,Z1,i,j); X3,Z3=apply_layer(M,X2,Z2)
        alts.append(z3.And(sel[k], *in_graph_group(adjs[d],X3,Z3)))
    s.add(lc+mc); s.add(z3.Or(alts))
    r=str(s.check()); res[r]=res.get(r,0)+1
print("one-step", res, "avg s/query", (time.time()-t0)/len(sample))
# LC-equivalence sat certificates: graph vs its local complement
t0=time.time(); res={}
for c in random.sample(range(K),20):
    g=Graph.decompress(n,infos[c].graph_id); g2=g.local_complemented(random.randrange(n)).local_complemented(random.randrange(n))
    s=z3.Solver(); X,Z=graph_tab(g2.adjacency_matrix.tolist()); M,mc=layer_vars(n,"m"); X3,Z3=apply_layer(M,X,Z)
    s.add(mc); s.add(in_graph_group(adjs[c],X3,Z3)); r=str(s.check()); res[r]=res.get(r,0)+1
print("lc-equiv sat", res, "avg", (time.time()-t0)/20)
# pairwise inequivalence unsat
t0=time.time(); res={}
for c,d in random.sample([(c,d) for c in range(K) for d in range(c)],40):
    s=z3.Solver(); X,Z=graph_tab(adjs[c]); M,mc=layer_vars(n,"m"); X3,Z3=apply_layer(M,X,Z)
    s.add(mc); s.add(in_graph_group(adjs[d],X3,Z3)); r=str(s.check()); res[r]=res.get(r,0)+1
print("pairwise inequiv", res, "avg", (time.time()-t0)/40)
