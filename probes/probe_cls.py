import sys, time, warnings, types
warnings.filterwarnings("ignore")
sys.path.insert(0,'/repo/src')
import numpy as real_np, z3
import symcore
from symcore import *
# --- extend SymInt for this probe
def _sub(self,o):  # a - b  (two's complement)
    o=SymInt.lift(o); nb=SymInt([b_not(x) for x in o.bits]); return self + nb + 1
SymInt.__sub__=_sub
SymInt.__rsub__=lambda self,o: SymInt.lift(o)-self
def realize(self):
    ctx=Ctx.cur; val=0
    for i,b in enumerate(self.bits):
        if ctx.branch(b): val|=(1<<i)
    if val>=128: val-=256
    return val
SymInt.realize=realize
SymInt.__str__=lambda self: str(self.realize())
SymInt.__index__=lambda self: self.realize()
SymInt.__int__=lambda self: self.realize()
SymInt.__lshift__=lambda self,k: SymInt([F]*k+self.bits[:W-k])
class NPProxy(types.ModuleType):
    def __getattr__(self,k): return getattr(real_np,k)
    def zeros(self,shape,dtype=None,**kw):
        a=real_np.empty(shape,dtype=object); a.fill(0); return a
    def ones(self,shape,dtype=None,**kw):
        a=real_np.empty(shape,dtype=object); a.fill(1); return a
    def eye(self,n,dtype=None,**kw): return real_np.eye(n,dtype=int).astype(object)
npx=NPProxy("npx")
import htstabilizer.stabilizer as st, htstabilizer.lc_classes as lc, htstabilizer.graph as gr
st.np=npx; lc.np=npx
from htstabilizer.stabilizer import Stabilizer
from htstabilizer.graph import Graph
n=int(sys.argv[1]); K={2:2,3:5,4:18,5:93,6:760}[n]
cls={2:lc.LCClass2,3:lc.LCClass3,4:lc.LCClass4,5:lc.LCClass5,6:lc.LCClass6}[n]
import random; random.seed(0)
ids=list(range(K)) if K<100 else random.sample(range(K),12)
for cid in ids:
    g=cls(cid).get_graph(); adj=g.adjacency_matrix
    def fn():
        cons=[]; R=real_np.empty((n,n),dtype=object); S=real_np.empty((n,n),dtype=object)
        for q in range(n):
            a,b,c,d=[z3.Bool(f"l{q}{k}") for k in "abcd"]
            Ctx.cur.solver.add(z3.Xor(z3.And(a,d),z3.And(b,c)))
            for gidx in range(n):
                x=T if q==gidx else F; z=T if adj[q,gidx] else F
                R[q,gidx]=SymInt.bit(b_xor(b_and(a,x),b_and(b,z))); S[q,gidx]=SymInt.bit(b_xor(b_and(c,x),b_and(d,z)))
        s=Stabilizer.__new__(Stabilizer); s.R=R; s.S=S; s.num_qubits=n; s.phases=real_np.zeros(n,dtype=real_np.int8)
        got=lc.determine_lc_class(s).id()
        return [T if got==cid else F]
    t=time.time(); stt=explore(fn); print(cid, {k:(round(v,2) if isinstance(v,float) else v) for k,v in stt.items() if k!='cex'}, "cex" if stt['cex'] is not None else "ok", round(time.time()-t,2))
