import sys, time, warnings, types
warnings.filterwarnings("ignore")
sys.path.insert(0,'/repo/src')
exec(open('probe_cls.py').read().split("import htstabilizer.stabilizer as st")[0])
def _lt(self,o):  # unsigned-ish compare on small non-negative values: a<b  <=> borrow of a-b
    o=SymInt.lift(o); lt=F
    for a,b in zip(self.bits,o.bits):  # LSB->MSB
        lt=b_or(b_and(b_not(a),b), b_and(b_not(b_xor(a,b)),lt))
    return SymBool(lt)
SymInt.__lt__=_lt
SymInt.__gt__=lambda self,o: SymInt.lift(o).__lt__(self)
SymInt.__deepcopy__=lambda self,memo: SymInt(list(self.bits))
SymInt.__copy__=lambda self: SymInt(list(self.bits))
import htstabilizer.stabilizer as st, htstabilizer.lc_classes as lc, htstabilizer.graph as gr, htstabilizer.f2_algebra as f2, htstabilizer.find_local_clifford_layer as fl
for m in (st,lc,f2,fl): m.np=npx
from htstabilizer.graph import Graph
from htstabilizer import circuit_lookup
n=int(sys.argv[1]); conn=sys.argv[2]; cid=int(sys.argv[3]); ksym=int(sys.argv[4])
K={2:2,3:5,4:18,5:93,6:760}[n]
cls={2:lc.LCClass2,3:lc.LCClass3,4:lc.LCClass4,5:lc.LCClass5,6:lc.LCClass6}[n]
g=cls(cid).get_graph(); adj=g.adjacency_matrix
info=circuit_lookup.stabilizer_circuit_lookup(n,conn,cid); tg=Graph.decompress(n,info.graph_id)
def fn():
    R=real_np.empty((n,n),dtype=object); S=real_np.empty((n,n),dtype=object)
    for q in range(n):
        if q<ksym:
            a,b,c,d=[z3.Bool(f"l{q}{k}") for k in "abcd"]; Ctx.cur.solver.add(z3.Xor(z3.And(a,d),z3.And(b,c)))
        else: a,b,c,d=T,F,F,T
        for gi in range(n):
            x=T if q==gi else F; z=T if adj[q,gi] else F
            R[q,gi]=SymInt.bit(b_xor(b_and(a,x),b_and(b,z))); S[q,gi]=SymInt.bit(b_xor(b_and(c,x),b_and(d,z)))
    A=fl.find_local_clifford_layer(R,S,tg)
    if A is None: return [F]
    # obligation: check_LC formula
    Axx,Axz,Azx,Azz=A; gam=tg.adjacency_matrix.astype(object)
    LHS=(((gam@Axx)@R)+((gam@Axz)@S)+(Azx@R)+(Azz@S))
    obs=[]
    for v in LHS.reshape(-1):
        v=SymInt.lift(v); obs.append(b_not(v.bits[0]))
    ob=T
    for o in obs: ob=b_and(ob,o)
    return [ob]
t=time.time(); stt=explore(fn); print(n,conn,cid,"ksym",ksym,{k:(round(v,2) if isinstance(v,float) else v) for k,v in stt.items() if k!='cex'}, "CEX" if stt['cex'] is not None else "ok", round(time.time()-t,2))
