import sys, time, warnings, random
warnings.filterwarnings("ignore")
sys.path.insert(0,'/repo/src')
exec(open('probe_lc.py').read().split("# one-step query")[0])
random.seed(2)
def sym_graph_group(G, X, Z):
    n=len(G); cons=[]
    for g in range(len(X[0])):
        for i in range(n):
            s=z3.BoolVal(False)
            for j in range(n):
                if i!=j: s=z3.Xor(s,z3.And(G[i][j],X[j][g]))
            cons.append(Z[i][g]==s)
    return cons
tot=0
for c in random.sample(range(K),12):
    D=[d for d in range(K) if cost[d]>=cost[c]+2]
    if not D: continue
    t0=time.time()
    s=z3.Solver()
    X,Z=graph_tab(adjs[c]); L,lc=layer_vars(n,"l"); M,mc=layer_vars(n,"m")
    e=[[None]*n for _ in range(n)]
    for i in range(n):
        for j in range(i+1,n): e[i][j]=e[j][i]=z3.Bool(f"g{i}{j}")
    # target graph is one of D
    s.add(z3.Or([z3.And([e[i][j]==bool(adjs[d][i][j]) for i in range(n) for j in range(i+1,n)]) for d in D]))
    sel=[z3.Bool(f"e{k}") for k in range(len(edges))]
    s.add(z3.PbEq([(b,1) for b in sel],1))
    alts=[]
    for k,(i,j) in enumerate(edges):
        X1,Z1=apply_layer(L,X,Z,[i,j]); X2,Z2=cz(X1,Z1,i,j); X3,Z3=apply_layer(M,X2,Z2)
        alts.append(z3.And(sel[k], *sym_graph_group(e,X3,Z3)))
    s.add(lc+mc); s.add(z3.Or(alts))
    r=s.check(); dt=time.time()-t0; tot+=dt
    print(c, cost[c], len(D), r, round(dt,2))
print("total",tot)
